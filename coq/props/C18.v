(* C18 — A writer never emits an unsorted block: out-of-order inserts panic.  Statements only. *)
From Grenad.model Require Import Base Block Spec Format.
From Grenad.proofs Require Import BlockProofs FormatProofs.

(* block level, every insert sequence (sorted or not, duplicates or not): the block under
   construction either panics or holds exactly the inserted entries with strictly ascending keys *)
Theorem C18_block_sorted_or_panic : forall ins w es0,
  bw_ok w es0 ->
  (exists w', bw_insert_all w ins = Done w' /\ bw_ok w' (es0 ++ ins) /\ bw_interval w' = bw_interval w)
  \/ bw_insert_all w ins = Panic.
Proof. exact bw_insert_all_dichotomy. Qed.
Print Assumptions C18_block_sorted_or_panic.

(* the panic point: an insert panics exactly when the key (or value) is longer than u32::MAX or the
   key is not strictly greater than the last key of the block under construction *)
Theorem C18_panic_point : forall w es k v,
  bw_ok w es ->
  (entry_ok (k, v) /\ match last_opt es with Some (lk, _) => bytes_ltb lk k = true | None => True end ->
   exists w', bw_insert w k v = Done w' /\ bw_ok w' (es ++ [(k, v)]) /\ bw_interval w' = bw_interval w) /\
  (~ (entry_ok (k, v) /\ match last_opt es with Some (lk, _) => bytes_ltb lk k = true | None => True end) ->
   bw_insert w k v = Panic).
Proof. exact bw_insert_spec. Qed.
Print Assumptions C18_panic_point.

(* what a reader decodes from a finished block is strictly ascending *)
Theorem C18_finished_block_sorted : forall w es, bw_ok w es -> block_sorted (with_starts es 0) = true.
Proof. exact finished_block_sorted. Qed.
Print Assumptions C18_finished_block_sorted.

(* non-vacuity: a duplicate next to its predecessor panics, ascending keys are accepted *)
Example C18_examples :
  bw_insert_all (bw_new 8) [([1], [7]); ([1], [8])] = Panic /\
  bw_insert_all (bw_new 8) [([2], [7]); ([1], [8])] = Panic /\
  (exists w, bw_insert_all (bw_new 8) [([], []); ([0], [8]); ([0; 0], [])] = Done w).
Proof. split; [vm_compute; reflexivity|]. split; [vm_compute; reflexivity|]. eexists. vm_compute. reflexivity. Qed.

(* ---- the whole writer (data block, every index level, cascade and final flush), over ANY sink and
   for ANY insert sequence: a run that neither panics nor fails has emitted only blocks that are the
   finish of a legal block writer — each parses and decodes to strictly ascending keys ---- *)
From Grenad.model Require Import Trailer Writer.
From Grenad.proofs Require Import WriterInv.
Theorem C18_writer_blocks_legal : forall SK wr fl cnt compress c s0 es i s lg m,
  12 < wc_block_size c -> wc_levels c < 256 ->
  w_run_gen SK wr fl cnt compress c s0 es = (i, Done (s, lg, m)) ->
  Forall em_legal lg.
Proof. intros SK wr fl cnt compress c s0 es i s lg m HB HL H. exact (proj1 (w_run_gen_blocks SK wr fl cnt compress c HB s0 es i s lg m HL H)). Qed.
Print Assumptions C18_writer_blocks_legal.

Theorem C18_legal_block_is_sorted : forall e, em_legal e -> len (em_bytes e) < 2^64 ->
  exists b es, parse_block (em_bytes e) = Done b /\ block_entries b = Done (with_starts es 0) /\
               block_sorted (with_starts es 0) = true.
Proof. exact em_legal_decodes. Qed.
Print Assumptions C18_legal_block_is_sorted.

(* the runs executed by the correspondence (plain sink): file produced => all blocks legal *)
Theorem C18_sorted_or_panic : forall compress c es,
  12 < wc_block_size c -> wc_levels c < 256 ->
  match w_run compress c es with
  | WFile f log m => Forall em_legal log
  | WPanicInsert _ | WPanicFinish | WFail _ => True
  end.
Proof.
  intros compress c es HB HL. destruct (w_run compress c es) as [f log m| | |] eqn:E; try exact I.
  exact (proj1 (w_run_blocks compress c es f log m HB HL E)).
Qed.
Print Assumptions C18_sorted_or_panic.

(* the converse: the order assertions never fire on a strictly ascending input — no insert and no
   flush panics or fails (entries within the u32 length limit, fewer than 2^32 - 1 of them, a codec
   that does not fail); so a panic of the writer means an out-of-order key *)
From Coq Require Import Sorted.
From Grenad.proofs Require Import SortedFacts BlockProofs WriterProgress.

Theorem C18_sorted_input_never_panics : forall compress decompress c,
  (forall b z, compress (wc_codec c) (wc_level c) b = Done z -> decompress (wc_codec c) z = Done b) ->
  (forall b, exists z, compress (wc_codec c) (wc_level c) b = Done z) ->
  forall es, StronglySorted blt (map fst es) -> entries_ok es -> len es + 1 <= U32_MAX -> wc_levels c < 256 ->
  exists s lg m, w_run_gen vsink vs_wr vs_fl vs_count compress c vs_empty es = (len es, Done (s, lg, m)).
Proof. exact w_run_progress. Qed.
Print Assumptions C18_sorted_input_never_panics.

(* ---- the panic point of the WHOLE writer (any sink that does not itself panic, any insert sequence):
   where a run panics and why ---- *)
From Grenad.proofs Require Import WriterPanic.

(* an entry the data block under construction refuses (key not strictly above its last key, or key/value
   longer than u32::MAX) panics at exactly that insert, whatever was inserted before and whatever follows *)
Theorem C18_writer_panics_at_the_offending_insert : forall SK wr fl cnt compress c s0 pre k v post st,
  reaches SK wr cnt compress c s0 pre st -> data_violation (w_data st) k v ->
  w_run_gen SK wr fl cnt compress c s0 (pre ++ (k, v) :: post) = (len pre, Panic).
Proof. exact w_run_data_violation. Qed.
Print Assumptions C18_writer_panics_at_the_offending_insert.

(* one insert, classified: success means the data block accepted the entry; a panic is the order assertion of
   the data block on (k, v), or of an index block of the writer on the key k it is asked to record *)
Theorem C18_insert_outcomes : forall SK wr cnt compress c,
  12 < wc_block_size c ->
  (forall s b, wr s b <> Panic) -> (forall a b d, compress a b d <> Panic) ->
  forall st k v n, wst_inv SK c st -> cap SK n st -> n + 2 <= U32_MAX ->
  match w_insert SK wr cnt compress c st k v with
  | Done st' => cap SK (n + 1) st' /\ exists es, bw_ok (w_data st) es /\ order_ok es k v
  | Panic => data_violation (w_data st) k v \/ exists p, In p (w_idx st) /\ record_violation p k
  | Fail _ => True
  end.
Proof.
  intros SK wr cnt compress c HB Hw Hc.
  exact (w_insert_cases SK wr (fun s => Done s) cnt compress c HB Hw (fun s H => ltac:(discriminate H)) Hc).
Qed.
Print Assumptions C18_insert_outcomes.

(* every panic of a run (fewer than 2^32 - 2 inserts) is one of the two order assertions the property names:
   at insert i, of the data block on that entry or of an index block on that key; at into_inner, of an index
   block on the last key of a pending block *)
Theorem C18_every_panic_is_an_order_violation : forall SK wr fl cnt compress c,
  12 < wc_block_size c ->
  (forall s b, wr s b <> Panic) -> (forall s, fl s <> Panic) -> (forall a b d, compress a b d <> Panic) ->
  forall s0 es i, wc_levels c < 256 -> len es + 2 <= U32_MAX ->
  w_run_gen SK wr fl cnt compress c s0 es = (i, Panic) ->
  exists pre st, reaches SK wr cnt compress c s0 pre st /\ i = len pre /\
    ((exists k v post, es = pre ++ (k, v) :: post /\
        (data_violation (w_data st) k v \/ exists p, In p (w_idx st) /\ record_violation p k))
     \/ (es = pre /\ exists p key, In p (w_idx st) /\ record_violation p key /\
           (bw_last (w_data st) = Some key \/ exists q, In q (w_idx st) /\ bw_last q = Some key))).
Proof. exact w_run_panic_cause. Qed.
Print Assumptions C18_every_panic_is_an_order_violation.

(* non-vacuity: with one entry per block, a key that jumps back over a block boundary is accepted by the
   fresh data block and refused by the index block that has to record it — at the next cut (insert 1) —
   and a duplicate inside a block panics at its own insert; an ascending input gives a file *)
Example C18_whole_writer_examples :
  let c := mk_wcfg 0 0 16 1 0 in
  (match w_run compress_none c [([5], [1;1;1;1;1;1;1;1;1;1;1;1;1;1;1;1]); ([3], [1;1;1;1;1;1;1;1;1;1;1;1;1;1;1;1])] with WPanicInsert 1 => true | _ => false end) = true /\
  (match w_run compress_none c [([5], [1;1;1;1;1;1;1;1;1;1;1;1;1;1;1;1]); ([3], [])] with WPanicFinish => true | _ => false end) = true /\
  (match w_run compress_none (mk_wcfg 0 0 4096 1 0) [([5], []); ([5], [])] with WPanicInsert 1 => true | _ => false end) = true /\
  (match w_run compress_none c [([3], [1;1;1;1;1;1;1;1;1;1;1;1;1;1;1;1]); ([5], [])] with WFile _ _ _ => true | _ => false end) = true.
Proof. vm_compute. repeat split. Qed.
