(* C06 — K-way merge yields the ordered key union, values merged once in source order.
   Statements only.  C06_merge (at the end) is the full statement on the executable transcription of
   merger.rs (heap of cursors ordered by (current key, source index), pop the least, pop every equal
   key, merge, push the advanced cursors back): the merge function is called exactly once per distinct
   key, in strictly ascending key order, on that key's values in source order, and nothing else
   happens.  A source is the list of entries its cursor yields (C01); every generated case compares
   outputs, the exact sequence of merge-function calls and the file written through a writer. *)
From Coq Require Import Sorting.Permutation.
From Grenad.model Require Import Base Merger.
From Grenad.proofs Require Import MergerProofs.

Theorem C06_pop_removes_one : forall l h rest, pop_min l = Some (h, rest) -> Permutation (h :: rest) l.
Proof. exact pop_min_perm. Qed.
Print Assumptions C06_pop_removes_one.

Theorem C06_heap_members : forall srcs i h, In h (init_heap srcs i) ->
  he_rest h <> [] /\ exists j, nth_error srcs j = Some (he_rest h) /\ he_idx h = i + N.of_nat j.
Proof. exact init_heap_spec. Qed.
Print Assumptions C06_heap_members.

(* no source, or only empty sources: empty output, the merge function is never called *)
Theorem C06_empty_sources : forall mf calls srcs,
  Forall (fun s => s = []) srcs -> merge_run mf calls srcs = Done ([], calls).
Proof. exact merge_run_empty. Qed.
Print Assumptions C06_empty_sources.

Example C06_example :
  merge_run mf_concat 0 [[([1], [65]); ([3], [66])]; []; [([1], [67]); ([2], [68])]]
  = Done ([([1], [65; 67]); ([2], [68]); ([3], [66])], 3).
Proof. vm_compute. reflexivity. Qed.

(* ================= the full statement =================
   acalls fuel srcs: the (key, values) sequence of an index-ordered abstract merge (take the least
   head key, the heads equal to it in source order, advance those sources); run_calls applies the
   merge function to such a sequence, numbering the calls.
   C06_merge_is_calls: for strictly ascending sources the heap-based merger IS run_calls over
   that sequence — same output, same calls with the same ordinals, same failure.
   C06_calls: the sequence has strictly ascending keys, which are exactly the keys of the sources,
   each with exactly that key's values in source order. *)
From Coq Require Import Sorted.
From Grenad.proofs Require Import SortedFacts MergeRefine.

Theorem C06_merge_is_calls : forall mf calls srcs, Forall ssorted srcs ->
  merge_run mf calls srcs = run_calls mf calls (acalls (S (total_len srcs)) srcs).
Proof. exact merge_run_calls. Qed.
Print Assumptions C06_merge_is_calls.

Theorem C06_calls : forall srcs, Forall ssorted srcs ->
  let cs := acalls (S (total_len srcs)) srcs in
  StronglySorted blt (map fst cs) /\
  (forall k, In k (map fst cs) <-> has_key k srcs) /\
  (forall k vs, In (k, vs) cs -> vs = vals_of k srcs).
Proof. exact merge_calls_spec. Qed.
Print Assumptions C06_calls.

(* when every call returns a value: one output entry per call, with the call's key and the merge
   function's value, and the call counter advanced by the number of keys *)
Theorem C06_output : forall mf cs calls out n, run_calls mf calls cs = Done (out, n) ->
  map fst out = map fst cs /\ n = calls + len cs /\
  Forall2 (fun c e => exists j, mf j (fst c) (snd c) = Done (snd e) /\ fst e = fst c) cs out.
Proof. exact run_calls_done. Qed.
Print Assumptions C06_output.

(* otherwise the first call that does not return a value decides the result: its merge error (or
   panic) is the result of the whole merge, and every earlier call returned a value *)
Theorem C06_failure : forall mf cs calls,
  (exists pre k vs post j, cs = pre ++ (k, vs) :: post /\ j = calls + len pre /\
     (forall i c, nth_error pre i = Some c -> exists v, mf (calls + N.of_nat i) (fst c) (snd c) = Done v) /\
     match mf j k vs with Done _ => False | _ => True end /\
     run_calls mf calls cs = match mf j k vs with Done _ => Panic | Panic => Panic | Fail e => Fail e end) \/
  (exists out n, run_calls mf calls cs = Done (out, n)).
Proof. exact run_calls_fail. Qed.
Print Assumptions C06_failure.

Example C06_calls_example :
  acalls 5 [[([1], [65]); ([3], [66])]; []; [([1], [67]); ([2], [68])]]
  = [([1], [[65]; [67]]); ([2], [[68]]); ([3], [[66]])].
Proof. vm_compute. reflexivity. Qed.

(* ================= streaming the merger into a writer =================
   the merged stream has strictly ascending keys, exactly the keys of the sources; written through a
   writer of any configuration it yields a file that opens with that many entries and scans as exactly
   the merged stream *)
From Grenad.gen Require Import Consts.
From Grenad.model Require Import Block Trailer Writer Reader Spec.
From Grenad.proofs Require Import BlockProofs ReaderRefine WriterStore MergeWriter.

Theorem C06_output_sorted : forall mf calls srcs out n, Forall ssorted srcs ->
  merge_run mf calls srcs = Done (out, n) ->
  sorted_strictb (map fst out) = true /\ (forall k, In k (map fst out) <-> has_key k srcs) /\ n = calls + len out.
Proof. exact merge_output_sorted. Qed.
Print Assumptions C06_output_sorted.

Theorem C06_into_writer : forall mf calls srcs out n compress decompress c,
  Forall ssorted srcs -> merge_run mf calls srcs = Done (out, n) ->
  (forall b z, compress (wc_codec c) (wc_level c) b = Done z -> decompress (wc_codec c) z = Done b) ->
  (forall b, exists z, compress (wc_codec c) (wc_level c) b = Done z) ->
  wc_levels c < 256 -> 1 <= wc_interval c -> wc_codec c <= 5 ->
  out <> [] -> entries_ok out -> len out + 1 <= U32_MAX ->
  exists s lg m,
    w_run_gen vsink vs_wr vs_fl vs_count compress c vs_empty out = (len out, Done (s, lg, m)) /\
    (len (vs_bytes s) < 2^64 -> mem_ok lg ->
     open_meta (vs_bytes s) = Done m /\ m_count m = len out /\
     exists st rs, run_ops (load_block decompress (vs_bytes s) (m_codec m)) (m_root m) (m_levels m) cs_fresh
                           (repeat ONext (S (length out))) = Done (st, rs) /\ rs = map Some out ++ [None]).
Proof. exact merge_into_writer. Qed.
Print Assumptions C06_into_writer.

(* ================= the sources are reader cursors =================
   cm_run: the merger transcribed over cursor states with a `next` function (heap of (source index,
   current entry, cursor), advance every popped cursor and push it back unless exhausted).  With every
   source a fresh cursor over a well-formed store — each file with its own loader, root and depth —
   it computes exactly what the list-based merger computes on the contents of those stores: the
   modelling of a source by the entries of its file is a theorem, not an assumption *)
From Grenad.proofs Require Import MergeCursors.

Theorem C06_sources_are_cursors : forall mf calls srcs ess, Forall2 reader_source srcs ess ->
  cm_run rsrc rsnext mf calls (S (total_len ess)) srcs = merge_run mf calls ess.
Proof. exact merge_of_readers. Qed.
Print Assumptions C06_sources_are_cursors.

Theorem C06_any_cursor : forall (St : Type) (snext : St -> outcome (St * option entry)) mf calls srcs ess,
  Forall2 (yields St snext) srcs ess ->
  cm_run St snext mf calls (S (total_len ess)) srcs = merge_run mf calls ess.
Proof. exact cm_run_lists. Qed.
Print Assumptions C06_any_cursor.

(* ================= the merger over FILES =================
   FileSorter.merge_files: every source file is opened (Reader::new: the trailer), a fresh cursor is put on
   it and the merger transcribed over cursors (move_on_next only) runs over those cursors.  If every file
   presents its entries - it opens with their count and its loader shows them as a well-formed store, or as
   the root without entries of a writer that finished without an insert - the merge of the files is exactly
   the list-level merge of those entry lists (C06_merge_is_calls, C06_calls, C06_output apply to it): same
   output, same calls of the merge function, same failure. *)
From Grenad.model Require Import Trailer Reader.
From Grenad.proofs Require Import FileSorter.

Theorem C06_merging_files : forall decompress (mf : mergefn) calls fs ess,
  Forall2 (fun f es => exists m, open_meta f = Done m /\ m_count m = len es /\
                                 store_of (load_block decompress f (m_codec m)) (m_root m) (m_levels m) es) fs ess ->
  merge_files decompress mf calls fs = merge_run mf calls ess.
Proof. exact merge_files_lists. Qed.
Print Assumptions C06_merging_files.
