(* C09: the independent decoder (model/Format.v: open the trailer, walk the index tree by offsets,
   decode every block by its framing) recovers exactly the content of every well-formed store — hence
   exactly the inserted entries from every file of the writer model. *)
From Coq Require Import Lia ZArith ZifyN ZifyBool ZifyNat.
From Grenad.gen Require Import Consts.
From Grenad.model Require Import Base Varint Block Trailer Writer Reader Spec Format.
From Grenad.proofs Require Import BaseProofs BlockProofs FormatProofs TrailerProofs BlockCursorProofs ReaderRefine WriterStore.
Ltac Zify.zify_post_hook ::= Z.div_mod_to_equations.

Section Decoder.
  Variable decompress : N -> bytes -> outcome bytes.
  Variable file : bytes.
  Variable codec : N.
  Variables (root levels : N) (bs : N -> option (block * list entry * list nat)).
  Hypothesis W : wf_store (load_block decompress file codec) root levels bs.

  Notation node := (N * N * block)%type.

  (* the inner loop of walk as a function of its own *)
  Fixpoint children (d : nat) (lvl : N) (l : list (N * entry)) : outcome (list entry * list node) :=
    match l with
    | [] => Done ([], [])
    | (_, (_, ob)) :: rest =>
      do j <- off_of_val ob;
      do sub <- walk decompress file codec d (lvl + 1) j;
      do others <- children d lvl rest;
      Done (fst sub ++ fst others, snd sub ++ snd others)
    end.

  Lemma walk_S d lvl off :
    walk decompress file codec (S d) lvl off =
    (do b <- ld decompress file codec off;
     do es <- block_entries b;
     do r <- children d lvl es;
     Done (fst r, (lvl, off, b) :: snd r)).
  Proof.
    cbn [walk]. destruct (ld decompress file codec off) as [b| |]; cbn [bind]; try reflexivity.
    destruct (block_entries b) as [es| |]; cbn [bind]; try reflexivity.
    f_equal. induction es as [|[o [k ob]] es IH]; [reflexivity|]. cbn [children]. rewrite IH. reflexivity.
  Qed.

  (* the data entries below an index item, d index levels further down *)
  Fixpoint desc (d : nat) (it : entry) : list entry :=
    match d with O => kids bs it | S d' => flat_map (desc d') (kids bs it) end.

  Lemma lseq_desc : forall d k, lseq root bs (k + S d) = flat_map (desc d) (lseq root bs k).
  Proof.
    induction d as [|d IH]; intro k.
    - replace (k + 1)%nat with (S k) by lia. reflexivity.
    - replace (k + S (S d))%nat with (S k + S d)%nat by lia. rewrite IH. cbn [lseq].
      clear. induction (lseq root bs k) as [|it l IHl]; [reflexivity|]. cbn [flat_map desc]. rewrite flat_map_app, IHl. reflexivity.
  Qed.

  Lemma stored_block off b es ridx : bs off = Some (b, es, ridx) ->
    ld decompress file codec off = Done b /\ block_entries b = Done (with_starts es 0).
  Proof.
    intro E. destruct W as [H1 _ _ _ _ _]. destruct (H1 off b es ridx E) as (A & Wb & _). split; [apply A|].
    apply block_entries_spec; [exact (wf_payload _ _ _ Wb)|exact (wf_entries _ _ _ Wb)].
  Qed.

  (* walking down from an item of level k with d index levels below its block *)
  Lemma walk_item : forall d k it lvl, (k + d < S (N.to_nat levels))%nat -> In it (lseq root bs k) ->
    exists nodes, walk decompress file codec d lvl (coff it) = Done (desc d it, nodes).
  Proof.
    induction d as [|d IH]; intros k it lvl Hk Hin.
    - destruct W as [_ _ _ H4 _ _]. pose proof (H4 k ltac:(lia)) as F. rewrite Forall_forall in F. destruct (F it Hin) as [_ Hb].
      destruct (bs (coff it)) as [[[b es] ridx]|] eqn:E; [|congruence].
      destruct (stored_block _ _ _ _ E) as [A B]. cbn [walk]. rewrite A. cbn [bind]. rewrite B. cbn [bind desc].
      unfold kids. rewrite E. rewrite map_snd_with_starts. eexists. reflexivity.
    - pose proof W as [_ _ _ H4 _ _]. pose proof (H4 k ltac:(lia)) as F. rewrite Forall_forall in F. destruct (F it Hin) as [_ Hb].
      destruct (bs (coff it)) as [[[b es] ridx]|] eqn:E; [|congruence].
      destruct (stored_block _ _ _ _ E) as [A B]. rewrite walk_S, A. cbn [bind]. rewrite B. cbn [bind desc].
      assert (Hk' : kids bs it = es) by (unfold kids; rewrite E; reflexivity). rewrite Hk'.
      (* the children are the items of level k + 1 under it *)
      assert (Hsub : forall x, In x es -> In x (lseq root bs (S k))).
      { intros x Hx. cbn [lseq]. apply in_flat_map. exists it. split; [exact Hin|rewrite Hk'; exact Hx]. }
      assert (Hitems : forall x, In x es -> item_ok bs x).
      { intros x Hx. pose proof (H4 (S k) ltac:(lia)) as F1. rewrite Forall_forall in F1. apply F1. apply Hsub. exact Hx. }
      assert (G : forall l pos, (forall x, In x l -> In x es) ->
                  exists nodes, children d lvl (with_starts l pos) = Done (flat_map (desc d) l, nodes)).
      { induction l as [|[kx ob] l IHl]; intros pos Hl; [eexists; reflexivity|]. cbn [with_starts children fst snd].
        pose proof (off_of_item bs (kx, ob) (Hitems _ (Hl _ (or_introl eq_refl)))) as Ho. cbn [snd] in Ho. rewrite Ho. cbn [bind].
        destruct (IH (S k) (kx, ob) (lvl + 1) ltac:(lia) (Hsub _ (Hl _ (or_introl eq_refl)))) as (n1 & E1). rewrite E1. cbn [bind].
        destruct (IHl (pos + len (frame kx ob)) ltac:(intros x Hx; apply Hl; right; exact Hx)) as (n2 & E2). rewrite E2. cbn [bind fst snd flat_map].
        eexists. reflexivity. }
      destruct (G es 0 ltac:(auto)) as (nodes & E2). rewrite E2. cbn [bind fst snd]. eexists. reflexivity.
  Qed.

  Theorem walk_content : exists nodes,
    walk decompress file codec (S (N.to_nat levels)) 0 root = Done (content root levels bs, nodes).
  Proof.
    pose proof W as [_ _ (rb & rridx & Hr) H4 _ _].
    destruct (stored_block _ _ _ _ Hr) as [A B]. rewrite walk_S, A. cbn [bind]. rewrite B. cbn [bind].
    assert (Hitems : forall x, In x (root_items root bs) -> item_ok bs x).
    { intros x Hx. pose proof (H4 0%nat ltac:(lia)) as F1. rewrite Forall_forall in F1. apply F1. exact Hx. }
    assert (G : forall l pos, (forall x, In x l -> In x (root_items root bs)) ->
                exists nodes, children (N.to_nat levels) 0 (with_starts l pos) = Done (flat_map (desc (N.to_nat levels)) l, nodes)).
    { induction l as [|[kx ob] l IHl]; intros pos Hl; [eexists; reflexivity|]. cbn [with_starts children fst snd].
      pose proof (off_of_item bs (kx, ob) (Hitems _ (Hl _ (or_introl eq_refl)))) as Ho. cbn [snd] in Ho. rewrite Ho. cbn [bind].
      destruct (walk_item (N.to_nat levels) 0 (kx, ob) (0 + 1) ltac:(lia) (Hl _ (or_introl eq_refl))) as (n1 & E1). rewrite E1. cbn [bind].
      destruct (IHl (pos + len (frame kx ob)) ltac:(intros x Hx; apply Hl; right; exact Hx)) as (n2 & E2). rewrite E2. cbn [bind fst snd flat_map].
      eexists. reflexivity. }
    destruct (G (root_items root bs) 0 ltac:(auto)) as (nodes & E2). rewrite E2. cbn [bind fst snd].
    exists ((0, root, rb) :: nodes). f_equal. f_equal. unfold content, es_all.
    change (S (N.to_nat levels)) with (0 + S (N.to_nat levels))%nat. rewrite lseq_desc. reflexivity.
  Qed.
End Decoder.

(* the decoder on files of the writer model *)
Theorem decode_written compress decompress c :
  (forall b z, compress (wc_codec c) (wc_level c) b = Done z -> decompress (wc_codec c) z = Done b) ->
  forall es i s lg m, wc_levels c < 256 -> 1 <= wc_interval c -> wc_codec c <= 5 ->
  w_run_gen vsink vs_wr vs_fl vs_count compress c vs_empty es = (i, Done (s, lg, m)) ->
  es <> [] -> sorted_strictb (map fst es) = true ->
  len (vs_bytes s) < 2^64 -> mem_ok lg -> len es < 2^64 ->
  exists nodes, decode_file decompress (vs_bytes s) = Done (m, es, nodes).
Proof.
  intros Hcodec es i s lg m HL Hint Hk Hrun Hne Hsorted H64 Hmem Hcount.
  destruct (written_file_roundtrip compress decompress c Hcodec es i s lg m HL Hint Hk Hrun Hne Hsorted H64 Hmem Hcount) as (Ho & _).
  destruct (written_file_wf compress decompress c Hcodec es i s lg m HL Hint Hrun Hne Hsorted H64 Hmem) as (bs & W & Ec & _ & Hc & _ & Hlv & _).
  unfold decode_file. rewrite Ho. cbn [bind]. rewrite Hc, Hlv.
  destruct (walk_content decompress (vs_bytes s) (wc_codec c) (m_root m) (wc_levels c) bs W) as (nodes & E). rewrite E. cbn [bind fst snd].
  exists nodes. rewrite Ec. reflexivity.
Qed.
