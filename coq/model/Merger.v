(* Transcription of src/merger.rs.  A source is the list of entries its cursor still has
   to yield, head = the entry `current()` returns (justified by the cursor properties:
   the merger only calls move_on_next and current).  The BinaryHeap is a list; popping
   yields the maximum of the reversed (key, source_index) order, i.e. the minimum. *)
From Grenad.model Require Import Base.

(* merge function: call ordinal -> key -> values -> merged value (Fail EMerge on user error) *)
Notation mergefn := (N -> bytes -> list bytes -> outcome bytes).

Record hentry : Type := mk_hentry { he_idx : N; he_rest : list entry }.   (* he_rest non-empty in the heap *)

Definition he_key (h : hentry) : option bytes :=
  match he_rest h with (k, _) :: _ => Some k | [] => None end.
Definition he_val (h : hentry) : option bytes :=
  match he_rest h with (_, v) :: _ => Some v | [] => None end.

(* Entry::cmp before .reverse(): by current key (None < Some), then by source index *)
Definition he_lt (a b : hentry) : bool :=
  match he_key a, he_key b with
  | None, None => he_idx a <? he_idx b
  | None, Some _ => true
  | Some _, None => false
  | Some ka, Some kb =>
    match lex_compare ka kb with Lt => true | Gt => false | Eq => he_idx a <? he_idx b end
  end.

(* BinaryHeap::pop: remove the least element of the list *)
Fixpoint pop_min_aux (best : hentry) (seen : list hentry) (l : list hentry) : hentry * list hentry :=
  match l with
  | [] => (best, seen)
  | h :: r => if he_lt h best then pop_min_aux h (best :: seen) r else pop_min_aux best (h :: seen) r
  end.
Definition pop_min (l : list hentry) : option (hentry * list hentry) :=
  match l with [] => None | h :: r => Some (pop_min_aux h [] r) end.

(* `while let Some(entry) = heap.peek() { if key == first_key { pop; push to tmp } else break }` *)
Fixpoint pop_equal (fuel : nat) (fk : bytes) (heap : list hentry) (acc : list hentry)
  : list hentry * list hentry :=
  match fuel with
  | O => (rev acc, heap)
  | S f =>
    match pop_min heap with
    | Some (h, heap') =>
      match he_key h with
      | Some k => if bytes_eqb fk k then pop_equal f fk heap' (h :: acc) else (rev acc, heap)
      | None => (rev acc, heap)     (* unreachable: exhausted cursors are never pushed *)
      end
    | None => (rev acc, heap)
    end
  end.

Definition advance (h : hentry) : hentry := mk_hentry (he_idx h) (tl (he_rest h)).

Fixpoint push_back (hs : list hentry) (heap : list hentry) : list hentry :=
  match hs with
  | [] => heap
  | h :: r => let h' := advance h in
              match he_rest h' with [] => push_back r heap | _ => push_back r (h' :: heap) end
  end.

Record mstate : Type := mk_mstate { ms_heap : list hentry; ms_calls : N }.

(* Merger::into_stream_merger_iter: every source is advanced once; exhausted ones are dropped *)
Fixpoint init_heap (srcs : list (list entry)) (i : N) : list hentry :=
  match srcs with
  | [] => []
  | s :: r => match s with [] => init_heap r (N.succ i) | _ => mk_hentry i s :: init_heap r (N.succ i) end
  end.

(* MergerIter::next *)
Definition merge_next (mf : mergefn) (st : mstate) : outcome (mstate * option entry) :=
  match pop_min (ms_heap st) with
  | None => Done (st, None)
  | Some (first, heap1) =>
    match he_rest first with
    | [] => Done (st, None)
    | (fk, fv) :: _ =>
      let '(others, heap2) := pop_equal (length heap1) fk heap1 [] in
      let vals := fv :: flat_map (fun h => match he_val h with Some v => [v] | None => [] end) others in
      do merged <- mf (ms_calls st) fk vals;
      Done (mk_mstate (push_back (first :: others) heap2) (ms_calls st + 1), Some (fk, merged))
    end
  end.

Fixpoint merge_all (mf : mergefn) (fuel : nat) (st : mstate) : outcome (list entry * N) :=
  match fuel with
  | O => Fail EFuel
  | S f =>
    do r <- merge_next mf st;
    let '(st', e) := r in
    match e with
    | Some kv => do rest <- merge_all mf f st'; Done (kv :: fst rest, snd rest)
    | None => Done ([], ms_calls st')
    end
  end.

Definition total_len (srcs : list (list entry)) : nat := fold_right (fun s a => (length s + a)%nat) 0%nat srcs.

(* merge of whole sources, starting the call counter at [calls0]; returns output and final counter *)
Definition merge_run (mf : mergefn) (calls0 : N) (srcs : list (list entry)) : outcome (list entry * N) :=
  merge_all mf (S (total_len srcs)) (mk_mstate (init_heap srcs 0) calls0).

(* merge functions used by the correspondence *)
Definition mf_concat : mergefn := fun _ _ vs => Done (concat vs).

(* a commutative, associative merge function for the unstable sort algorithm: the bytes of
   all values, sorted (a lone value with ascending bytes is returned unchanged) *)
(* counting sort over the byte values 0..255 *)
Definition byte_values : bytes := map N.of_nat (seq 0 256).
Definition sort_bytes (l : bytes) : bytes := flat_map (fun b => filter (N.eqb b) l) byte_values.
Definition mf_sortcat : mergefn := fun _ _ vs => Done (sort_bytes (concat vs)).

(* "join with a separator" (0x7C): associative, keeps a lone value, sensitive to the order of the values and
   to empty values at every position (which a concatenation cannot see) *)
Fixpoint join_sep (vs : list bytes) : bytes :=
  match vs with
  | [] => []
  | [v] => v
  | v :: r => v ++ 124 :: join_sep r
  end.
Definition mf_join : mergefn := fun _ _ vs => Done (join_sep vs).
(* fails on the j-th call (counting from 0), otherwise delegates *)
Definition mf_fail_at (j : N) (mf : mergefn) : mergefn :=
  fun ord k vs => if ord =? j then Fail EMerge else mf ord k vs.
