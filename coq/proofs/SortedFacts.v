(* Strict sortedness of byte-string keys as a relation, and generic facts about StronglySorted. *)
From Coq Require Import Lia ZArith Sorted Sorting.Permutation.
From Grenad.model Require Import Base Reader Spec.
From Grenad.proofs Require Import BaseProofs.

Definition blt (a b : bytes) : Prop := bytes_ltb a b = true.

Lemma sorted_strictb_cons' a l : sorted_strictb (a :: l) = true ->
  sorted_strictb l = true /\ (forall x, In x l -> bytes_ltb a x = true).
Proof.
  revert a; induction l as [|b l IH]; intros a H; [split; [reflexivity|intros x []]|].
  cbn [sorted_strictb] in H. apply andb_prop in H. destruct H as [H1 H2].
  split; [exact H2|]. intros x [<-|Hx]; [exact H1|].
  destruct (IH b H2) as [_ Hb]. apply (bytes_ltb_trans a b x H1). apply Hb. exact Hx.
Qed.

Lemma sorted_strictb_SS l : sorted_strictb l = true <-> StronglySorted blt l.
Proof.
  split.
  - induction l as [|a l IH]; intro H; [constructor|].
    apply sorted_strictb_cons' in H. destruct H as [H1 H2].
    constructor; [apply IH; exact H1|]. apply Forall_forall. exact H2.
  - induction 1 as [|a l Hs IH Hf]; [reflexivity|].
    destruct l as [|b r]; [reflexivity|].
    cbn [sorted_strictb] in *. apply andb_true_intro. split; [|exact IH].
    inversion Hf; subst. assumption.
Qed.

Lemma SS_app_inv {A} (R : A -> A -> Prop) l1 l2 : StronglySorted R (l1 ++ l2) ->
  StronglySorted R l1 /\ StronglySorted R l2 /\ (forall x y, In x l1 -> In y l2 -> R x y).
Proof.
  induction l1 as [|a l1 IH]; cbn [app]; intro H.
  - split; [constructor|]. split; [exact H|]. intros x y [].
  - inversion H as [|? ? Hs Hf]; subst. destruct (IH Hs) as (A1 & A2 & A3).
    rewrite Forall_forall in Hf.
    split; [constructor; [exact A1|]; apply Forall_forall; intros x Hx; apply Hf; apply in_or_app; left; exact Hx|].
    split; [exact A2|]. intros x y [<-|Hx] Hy; [apply Hf; apply in_or_app; right; exact Hy|apply A3; assumption].
Qed.

(* two lists sorted by an asymmetric relation with the same elements are equal *)
Lemma SS_perm_eq {A} (R : A -> A -> Prop) : (forall a b, R a b -> R b a -> False) ->
  forall l1 l2, StronglySorted R l1 -> StronglySorted R l2 -> Permutation l1 l2 -> l1 = l2.
Proof.
  intros Hasym. induction l1 as [|a l1 IH]; intros l2 H1 H2 Hp.
  - apply Permutation_nil in Hp. subst. reflexivity.
  - destruct l2 as [|b l2]; [apply Permutation_sym, Permutation_nil in Hp; discriminate|].
    inversion H1 as [|? ? H1s H1f]; subst. inversion H2 as [|? ? H2s H2f]; subst.
    rewrite Forall_forall in H1f, H2f.
    assert (a = b).
    { assert (Ha : In a (b :: l2)) by (eapply Permutation_in; [exact Hp|left; reflexivity]).
      assert (Hb : In b (a :: l1)) by (eapply Permutation_in; [apply Permutation_sym; exact Hp|left; reflexivity]).
      destruct Ha as [->|Ha]; [reflexivity|]. destruct Hb as [->|Hb]; [reflexivity|].
      exfalso. exact (Hasym a b (H1f b Hb) (H2f a Ha)). }
    subst b. f_equal. apply IH; [assumption|assumption|]. eapply Permutation_cons_inv. exact Hp.
Qed.
