(* C17 — No undefined behaviour in buffer management for any entry sizes (partial: the index
   arithmetic, region disjointness, alignment granularity and overflow-freedom of the sorter's
   two-ended buffer; Rust's aliasing/lifetime rules and the allocator are outside any Gallina model).
   Statements only. *)
From Coq Require Import Lia.
From Grenad.gen Require Import Consts.
From Grenad.model Require Import Base Merger Sorter.
From Grenad.proofs Require Import SorterBoundsProofs.

Theorem C17_constants : ENTRY_BOUND_SIZE = 16 /\ ENTRY_BOUND_ALIGN = 8.
Proof. split; reflexivity. Qed.
Print Assumptions C17_constants.

(* shape b: L is a multiple of 16 (every EntryBound slot is 16-byte sized at a multiple of 16),
   L >= 16, and the bounds region [0, 16 n) and the data region [L - U, L) do not overlap.
   Under it, Entries::fits / remaining never underflow ... *)
Theorem C17_fits_no_underflow : forall b sz, shape b ->
  eb_fits b sz = Done ((16 + sz <=? eb_L b - eb_U b - 16 * eb_n b) && (1 <=? eb_L b / 16 - eb_n b)).
Proof. exact eb_fits_shape. Qed.
Print Assumptions C17_fits_no_underflow.

(* ... and Entries::insert (any entry size, any number of doublings) keeps it, with exactly the
   new entry accounted for; the rounded allocation size only ever stays, doubles *)
Theorem C17_insert_keeps_shape : forall fuel b sz b',
  shape b -> eb_insert fuel b sz = Done b' ->
  shape b' /\ eb_U b' = eb_U b + sz /\ eb_n b' = eb_n b + 1 /\
  (eb_L b' = eb_L b \/ eb_L b' = 2 * eb_L b \/ eb_L b' < 4 * (16 + sz)) /\ eb_L b <= eb_L b'.
Proof. exact eb_insert_spec. Qed.
Print Assumptions C17_insert_keeps_shape.

(* the doubling loop terminates for every entry size a usize can express (no runaway allocation) *)
Theorem C17_insert_total : forall b sz, shape b -> sz < 2^64 -> exists b', eb_insert 80 b sz = Done b'.
Proof. intros b sz Hs H. exact (eb_insert_total 79 b sz Hs (fuel80 b sz Hs H)). Qed.
Print Assumptions C17_insert_total.

(* allocation sizes are rounded to the EntryBound size: the size stored for dealloc is the size allocated *)
Theorem C17_rounded_layout : forall x, round_up x mod 16 = 0 /\ x <= round_up x <= x + 15.
Proof. exact round_up_mult. Qed.
Print Assumptions C17_rounded_layout.

Example C17_shape_example : shape (mk_ebuf 131072 100 3) /\ shape (mk_ebuf 16 0 1).
Proof. unfold shape; cbn; split; repeat split; lia. Qed.
