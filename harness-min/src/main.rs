//! Minimal-feature companion of the correspondence harness: grenad is built here with its DEFAULT
//! cargo features only.  Scenario `open-c13-min` opens hand-assembled byte strings (every codec id,
//! both magics, every truncation) so that what `Reader::new` accepts is checked against the model's
//! `open_meta` and the declarative trailer predicate independently of the codecs compiled in.
#[path = "../../harness/src/util.rs"]
mod util;

use grenad::Reader;
use std::fs::File;
use std::io::{BufWriter, Cursor, Write};
use util::*;

fn io_kind_code(k: std::io::ErrorKind) -> u32 {
    use std::io::ErrorKind::*;
    match k {
        UnexpectedEof => 1,
        InvalidInput => 2,
        WriteZero => 3,
        Interrupted => 4,
        InvalidData => 6,
        _ => 5,
    }
}
fn err_class<U>(e: &grenad::Error<U>) -> String {
    match e {
        grenad::Error::Io(io) => format!("io{}", io_kind_code(io.kind())),
        grenad::Error::Merge(_) => "merge".to_string(),
        grenad::Error::InvalidCompressionType => "codec".to_string(),
        grenad::Error::InvalidFormatVersion => "version".to_string(),
    }
}

fn one<W: Write>(c: &mut Cases<W>, bytes: &[u8], class: &str) {
    let res = match catch(|| Reader::new(Cursor::new(bytes)).map(|r| (r.file_version() as u32, r.compression_type() as u8, r.len()))) {
        Ok(Ok((v, codec, n))) => format!("ok {} {} {}", v, codec, n),
        Ok(Err(e)) => format!("err {}", err_class(&e)),
        Err(_) => "panic".to_string(),
    };
    c.begin("open");
    let tail = if bytes.len() > 64 { &bytes[bytes.len() - 64..] } else { bytes };
    c.line(&format!("len {}", bytes.len()));
    c.line(&format!("tail {}", hex(tail)));
    c.line(&format!("res {}", res));
    c.end();
    c.bump(&format!("class.{}", class), 1);
    c.bump(&format!("res.{}", res.split(' ').next().unwrap()), 1);
    if res.starts_with("ok") || bytes.len() >= 4 {
        c.nontrivial(&fnv(tail).to_le_bytes());
    }
}

fn generate<W: Write>(c: &mut Cases<W>, rng: &mut Rng, thorough: bool) {
    let magic2 = 0x6723D4C4u32.to_le_bytes();
    let magic1 = 0x76324D4Cu32.to_le_bytes();
    let nbodies = if thorough { 60 } else { 8 };
    for _ in 0..nbodies {
        let body_len = rng.below(40) as usize;
        let body: Vec<u8> = (0..body_len).map(|_| rng.below(256) as u8).collect();
        for codec in 0u8..=8 {
            let root = rng.below(1 << 20);
            let count = if rng.chance(1, 4) { rng.next() } else { rng.below(1000) };
            let levels = rng.below(4) as u8;
            // version 2: root, codec, count, levels, magic
            let mut f = body.clone();
            f.extend_from_slice(&root.to_le_bytes());
            f.push(codec);
            f.extend_from_slice(&count.to_le_bytes());
            f.push(levels);
            f.extend_from_slice(&magic2);
            one(c, &f, "v2-trailer");
            for cut in 1..=23.min(f.len()) {
                one(c, &f[..f.len() - cut], "v2-truncation");
            }
            // version 1: root, codec, count, magic
            let mut g = body.clone();
            g.extend_from_slice(&root.to_le_bytes());
            g.push(codec);
            g.extend_from_slice(&count.to_le_bytes());
            g.extend_from_slice(&magic1);
            one(c, &g, "v1-trailer");
            for cut in 1..=22.min(g.len()) {
                one(c, &g[..g.len() - cut], "v1-truncation");
            }
        }
    }
}

fn main() {
    let args: Vec<String> = std::env::args().collect();
    if args.len() < 2 {
        eprintln!("usage: gverif-min <scenario> [--tier quick|thorough] [--seed N] [--out FILE] [--stats FILE]");
        std::process::exit(2);
    }
    let scenario = args[1].clone();
    let (mut tier, mut seed, mut out, mut stats) = ("quick".to_string(), 1u64, "cases.txt".to_string(), "stats.json".to_string());
    let mut i = 2;
    while i < args.len() {
        match args[i].as_str() {
            "--tier" => { tier = args[i + 1].clone(); i += 2; }
            "--seed" => { seed = args[i + 1].parse().unwrap(); i += 2; }
            "--out" => { out = args[i + 1].clone(); i += 2; }
            "--stats" => { stats = args[i + 1].clone(); i += 2; }
            _ => { i += 1; }
        }
    }
    if std::env::var("GVERIF_PANIC").is_err() {
        std::panic::set_hook(Box::new(|_| {}));
    }
    let mut rng = Rng::new(seed);
    let mut cases = Cases::new(BufWriter::new(File::create(&out).unwrap()));
    match scenario.as_str() {
        "open-c13-min" => { cases.prop = "C13".into(); generate(&mut cases, &mut rng, tier == "thorough") }
        other => { eprintln!("unknown scenario {}", other); std::process::exit(2); }
    }
    cases.finish(&stats);
}
