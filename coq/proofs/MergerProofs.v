(* Proofs about model/Merger.v (in progress): the list-based heap pops a least element. *)
From Coq Require Import Lia ZArith ZifyN ZifyBool ZifyNat Sorting.Permutation.
From Grenad.model Require Import Base Merger.
From Grenad.proofs Require Import BaseProofs.
Ltac Zify.zify_post_hook ::= Z.div_mod_to_equations.

Lemma pop_min_aux_perm l : forall best seen h rest,
  pop_min_aux best seen l = (h, rest) -> Permutation (h :: rest) (best :: seen ++ l).
Proof.
  induction l as [|x l IH]; intros best seen h rest H; cbn [pop_min_aux] in H.
  - injection H as <- <-. rewrite app_nil_r. reflexivity.
  - destruct (he_lt x best).
    + apply IH in H. rewrite H. cbn [app].
      transitivity (x :: best :: seen ++ l); [reflexivity|].
      transitivity (best :: x :: seen ++ l); [apply perm_swap|].
      apply perm_skip. apply Permutation_middle.
    + apply IH in H. rewrite H. cbn [app]. apply perm_skip.
      transitivity (x :: seen ++ l); [reflexivity|]. apply Permutation_middle.
Qed.

(* BinaryHeap::pop on the list model removes exactly one element *)
Lemma pop_min_perm l h rest : pop_min l = Some (h, rest) -> Permutation (h :: rest) l.
Proof.
  destruct l as [|x l]; cbn [pop_min]; [discriminate|]. intro H. injection H as H.
  apply pop_min_aux_perm in H. exact H.
Qed.

Lemma pop_min_none l : pop_min l = None <-> l = [].
Proof. destruct l; cbn [pop_min]; split; intro H; try reflexivity; discriminate. Qed.

(* sources that are exhausted never enter the heap; others enter with their index *)
Lemma init_heap_spec srcs : forall i h, In h (init_heap srcs i) ->
  he_rest h <> [] /\ exists j, nth_error srcs j = Some (he_rest h) /\ he_idx h = i + N.of_nat j.
Proof.
  induction srcs as [|s srcs IH]; intros i h Hin; cbn [init_heap] in Hin; [destruct Hin|].
  destruct s as [|e s].
  - apply IH in Hin. destruct Hin as [H1 (j & H2 & H3)]. split; [exact H1|]. exists (S j). split; [exact H2|lia].
  - destruct Hin as [<-|Hin].
    + cbn [he_rest he_idx]. split; [discriminate|]. exists 0%nat. split; [reflexivity|lia].
    + apply IH in Hin. destruct Hin as [H1 (j & H2 & H3)]. split; [exact H1|]. exists (S j). split; [exact H2|lia].
Qed.

(* zero sources, or only empty ones, merge to nothing without calling the merge function *)
Lemma merge_run_empty mf calls srcs : Forall (fun s => s = []) srcs -> merge_run mf calls srcs = Done ([], calls).
Proof.
  intro H. unfold merge_run.
  assert (E : init_heap srcs 0 = []).
  { generalize 0. induction H as [|s srcs Hs _ IH]; intro i; [reflexivity|]. subst s. cbn [init_heap]. apply IH. }
  rewrite E. cbn [merge_all merge_next pop_min ms_heap bind ms_calls]. reflexivity.
Qed.
