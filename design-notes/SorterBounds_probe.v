From Coq Require Import List NArith Lia ZArith ZifyN ZifyBool Bool.
Import ListNotations.
Open Scope N_scope.
Ltac Zify.zify_post_hook ::= Z.div_mod_to_equations.

(* Numeric model of sorter.rs: Entries::{fits,insert,reallocate_buffer}, Sorter::insert (sizes only). *)
Record cfg := { T : N; realloc : bool; M : N; C0 : N }.
Record st := { L : N; U : N; n : N; chunks : N; live : N; peak : N }.

Definition fits (s : st) (sz : N) : bool :=
  (16 + sz <=? L s - U s - 16 * n s) && (1 <=? L s / 16 - n s).

Fixpoint ent_insert (fuel : nat) (s : st) (sz : N) : option st :=
  if fits s sz then Some {| L := L s; U := U s + sz; n := n s + 1; chunks := chunks s; live := live s; peak := peak s |}
  else match fuel with
       | O => None
       | S f => ent_insert f {| L := 2 * L s; U := U s; n := n s; chunks := chunks s; live := live s; peak := peak s |} sz
       end.

Definition fuel_for (sz : N) : nat := S (S (N.to_nat (N.log2 (16 + sz)))).

Definition spill (s : st) : st :=
  {| L := L s; U := 0; n := 0; chunks := chunks s + 1; live := live s + 1; peak := N.max (peak s) (live s + 1) |}.
Definition merge_chunks (s : st) : st :=
  {| L := L s; U := U s; n := n s; chunks := 1; live := live s + 1 - chunks s; peak := N.max (peak s) (live s + 1) |}.

Definition s_insert (c : cfg) (s : st) (sz : N) : option st :=
  if fits s sz || (negb (T c <=? L s) && realloc c) then ent_insert (fuel_for sz) s sz
  else match ent_insert (fuel_for sz) (spill s) sz with
       | None => None
       | Some s2 => Some (if M c <=? chunks s2 then merge_chunks s2 else s2)
       end.

Definition init (c : cfg) : st := {| L := C0 c; U := 0; n := 0; chunks := 0; live := 0; peak := 0 |}.

Fixpoint run (c : cfg) (s : st) (szs : list N) : option st :=
  match szs with [] => Some s | sz :: r => match s_insert c s sz with None => None | Some s' => run c s' r end end.

Arguments N.add : simpl never. Arguments N.mul : simpl never. Arguments N.sub : simpl never. Arguments N.div : simpl never.
Arguments N.modulo : simpl never. Arguments N.leb : simpl never. Arguments N.max : simpl never.
Ltac proj := cbn [L U n chunks live peak] in *.
(* --- buffer shape --- *)
Definition shape (s : st) := L s mod 16 = 0 /\ 16 <= L s /\ U s + 16 * n s <= L s.

Lemma fits_true s sz : fits s sz = true -> 16 + sz <= L s - U s - 16 * n s /\ 1 <= L s / 16 - n s.
Proof. unfold fits. intro H. apply andb_true_iff in H. destruct H as [A B]. split; lia. Qed.
Lemma fits_false s sz : shape s -> fits s sz = false -> L s - U s - 16 * n s < 16 + sz.
Proof.
  unfold fits, shape. intros (A & B & C) H. apply andb_false_iff in H. destruct H as [H|H]; [lia|].
  (* second conjunct false: L/16 - n < 1, i.e. n >= L/16, so remaining < 16 *)
  assert (L s / 16 - n s < 1) by lia. lia.
Qed.

Lemma ent_insert_spec fuel : forall s sz s',
  shape s -> ent_insert fuel s sz = Some s' ->
  shape s' /\ U s' = U s + sz /\ n s' = n s + 1 /\ chunks s' = chunks s /\ live s' = live s /\ peak s' = peak s /\
  (L s' = L s \/ L s' = 2 * L s \/ L s' < 4 * (16 + sz)) /\ L s <= L s'.
Proof.
  induction fuel as [|f IH]; intros s sz s' Hs H; cbn [ent_insert] in H.
  - destruct (fits s sz) eqn:F; [|discriminate]. inversion H; subst; clear H.
    apply fits_true in F. unfold shape in *. proj. lia.
  - destruct (fits s sz) eqn:F.
    + inversion H; subst; clear H. apply fits_true in F. unfold shape in *. proj. lia.
    + pose proof (fits_false s sz Hs F) as NF.
      set (s1 := {| L := 2 * L s; U := U s; n := n s; chunks := chunks s; live := live s; peak := peak s |}) in *.
      assert (Hs1 : shape s1) by (unfold shape in *; subst s1; proj; lia).
      pose proof (IH s1 sz s' Hs1 H) as (A & B & C & D & E & P & G & Hle).
      subst s1; proj. split; [exact A|]. do 5 (split; [lia|]). split; [|lia].
      destruct (fits {| L := 2 * L s; U := U s; n := n s; chunks := chunks s; live := live s; peak := peak s |} sz) eqn:F1.
      * destruct f; cbn [ent_insert] in H; rewrite F1 in H; inversion H; subst; proj; lia.
      * apply fits_false in F1; [|unfold shape in *; proj; lia]. proj.
        unfold shape in Hs. right. right. destruct G as [G|[G|G]]; lia.
Qed.

(* enough fuel: the doubling loop terminates on a fitting state *)
Lemma ent_insert_total fuel : forall s sz, shape s -> 16 + sz < 2 ^ N.of_nat fuel * L s -> exists s', ent_insert (S fuel) s sz = Some s'.
Proof.
  induction fuel as [|f IH]; intros s sz Hs Hf.
  - cbn [ent_insert]. destruct (fits s sz) eqn:F; [eauto|].
    apply fits_false in F; [|exact Hs].
    (* after one doubling it fits *)
    set (s1 := {| L := 2 * L s; U := U s; n := n s; chunks := chunks s; live := live s; peak := peak s |}).
    assert (F1 : fits s1 sz = true).
    { unfold fits. subst s1; proj. unfold shape in Hs. change (2 ^ N.of_nat 0) with 1 in Hf.
      apply andb_true_iff. split; lia. }
    rewrite F1. eauto.
  - cbn [ent_insert]. destruct (fits s sz) eqn:F; [eauto|].
    apply IH.
    + unfold shape in *; proj; lia.
    + proj. rewrite Nat2N.inj_succ, N.pow_succ_r' in Hf. lia.
Qed.

Lemma ent_insert_fits fuel s sz : fits s sz = true ->
  ent_insert fuel s sz = Some {| L := L s; U := U s + sz; n := n s + 1; chunks := chunks s; live := live s; peak := peak s |}.
Proof. intro F. destruct fuel; cbn [ent_insert]; rewrite F; reflexivity. Qed.

Lemma fuel_ok s sz : shape s -> 16 + sz < 2 ^ N.of_nat (S (N.to_nat (N.log2 (16 + sz)))) * L s.
Proof.
  intros (A & B & C). rewrite Nat2N.inj_succ, N2Nat.id, N.pow_succ_r'.
  pose proof (N.log2_spec (16 + sz) ltac:(lia)) as [_ H]. rewrite N.pow_succ_r' in H.
  nia.
Qed.

Record hyps (c : cfg) : Prop := {
  hT : 64 <= T c; hC16 : C0 c mod 16 = 0; hC0 : 16 <= C0 c; hC0T : C0 c <= T c + 15;
  hNR : realloc c = false -> T c <= C0 c; hM : 1 <= M c }.

Definition Inv (c : cfg) (s : st) :=
  shape s /\ (L s < 2 * T c \/ L s = C0 c) /\ (realloc c = false -> L s = C0 c) /\
  (U s = 0 \/ 1 <= n s) /\
  chunks s <= N.max (M c - 1) 1 /\ live s = chunks s /\ peak s <= M c + 2.

Lemma inv_init c : hyps c -> Inv c (init c).
Proof. intros []. unfold Inv, init, shape; proj. repeat split; lia. Qed.

Lemma s_insert_inv c s sz : hyps c -> Inv c s -> sz <= T c / 4 ->
  exists s', s_insert c s sz = Some s' /\ Inv c s'.
Proof.
  intros Hc (Sh & HL & HNR & HU & HC & HLv & HP) Hsz. destruct Hc.
  unfold s_insert.
  destruct (fits s sz) eqn:F; cbn [orb].
  { rewrite ent_insert_fits by exact F. eexists; split; [reflexivity|].
    apply fits_true in F. unfold Inv, shape in *; proj. repeat split; try lia; auto. }
  destruct (negb (T c <=? L s) && realloc c) eqn:R.
  { apply andb_true_iff in R. destruct R as [R1 R2]. apply negb_true_iff in R1.
    destruct (ent_insert_total _ s sz Sh (fuel_ok s sz Sh)) as [s' E]. unfold fuel_for. rewrite E.
    eexists; split; [reflexivity|].
    pose proof (ent_insert_spec _ _ _ _ Sh E) as (A & B & C & D & G & P & Q & Hle).
    pose proof (fits_false s sz Sh F) as NF.
    unfold Inv. split; [exact A|]. split; [left; destruct Q as [Q|[Q|Q]]; lia|].
    split; [intro X; congruence|]. repeat split; lia. }
  (* spill *)
  assert (Sp : shape (spill s)) by (unfold shape, spill in *; proj; lia).
  destruct (ent_insert_total _ (spill s) sz Sp (fuel_ok _ sz Sp)) as [s2 E]. unfold fuel_for. rewrite E.
  eexists; split; [reflexivity|].
  pose proof (ent_insert_spec _ _ _ _ Sp E) as (A & B & C & D & G & P & Q & Hle).
  pose proof I as NF0.
  unfold spill in B, C, D, G, P, Q, Hle; proj.
  (* after the spill the entry fits as soon as L >= 16 + sz *)
  assert (K : T c <= L s \/ realloc c = false).
  { apply andb_false_iff in R. destruct R as [R|R]; [left; apply negb_false_iff in R; lia | right; exact R]. }
  assert (LL : L s2 = L s \/ (L s < T c /\ realloc c = true /\ L s2 < 2 * T c)).
  { destruct (fits (spill s) sz) eqn:F2.
    - rewrite (ent_insert_fits _ _ _ F2) in E. inversion E; subst; proj. left; reflexivity.
    - apply fits_false in F2; [|exact Sp]. unfold spill in F2; proj.
      destruct K as [K|K]; [exfalso; lia|]. specialize (HNR K). exfalso. specialize (hNR0 K). lia. }
  assert (Inv2 : shape s2 /\ (L s2 < 2 * T c \/ L s2 = C0 c) /\ (realloc c = false -> L s2 = C0 c) /\ (U s2 = 0 \/ 1 <= n s2)).
  { split; [exact A|]. split; [destruct LL as [LL|LL]; lia|]. split; [|lia].
    intro X. destruct LL as [LL|LL]; [rewrite LL; auto | destruct LL as (_ & Y & _); congruence]. }
  destruct Inv2 as (I1 & I2 & I3 & I4).
  clear E Sp Sh HL HNR HU NF0 F R K LL Q Hle A.
  destruct (N.leb_spec (M c) (chunks s2)) as [Mg|Mg]; unfold Inv, merge_chunks; proj.
  - split; [exact I1|]. split; [exact I2|]. split; [exact I3|]. split; [exact I4|]. Time repeat split; lia.
  - split; [exact I1|]. split; [exact I2|]. split; [exact I3|]. split; [exact I4|]. Time repeat split; lia.
Qed.

Theorem C08_bounds c szs : hyps c -> Forall (fun sz => sz <= T c / 4) szs ->
  forall s, Inv c s -> exists s', run c s szs = Some s' /\ Inv c s'.
Proof.
  intros Hc H. induction H as [|sz r Hsz _ IH]; intros s I; cbn [run]; [eauto|].
  destruct (s_insert_inv c s sz Hc I Hsz) as (s1 & E & I1). rewrite E. apply IH. exact I1.
Qed.

Corollary C08_volume c s : hyps c -> Inv c s -> U s <= (if realloc c then 2 * T c else T c) /\ peak s <= M c + 2.
Proof.
  intros [] (Sh & HL & HNR & HU & HC & HLv & HP). unfold shape in Sh. split; [|exact HP].
  destruct (realloc c) eqn:R; [lia|]. specialize (HNR eq_refl). lia.
Qed.

(* non-vacuity: production constants *)
Example prod_hyps : hyps {| T := 10485760; realloc := true; M := 25; C0 := 131072 |}.
Proof. constructor; cbn; try lia; try reflexivity; try discriminate. Qed.
Print Assumptions C08_bounds.
