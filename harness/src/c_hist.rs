//! Reader scenarios: cursor histories (C02, C03, C16, C10) and iterators (C04, C05).
use crate::gen::*;
use crate::util::*;
use grenad::{CompressionType, Reader, ReaderCursor};
use std::cell::Cell;
use std::io::{self, Cursor, Read, Seek, SeekFrom, Write};
use std::ops::Bound;
use std::rc::Rc;

/// A `Read + Seek` source counting absolute seeks (one per block load) and bytes read.
#[derive(Clone)]
pub struct Counting {
    inner: Cursor<Rc<Vec<u8>>>,
    pub seeks: Rc<Cell<u64>>,
    pub bytes: Rc<Cell<u64>>,
    /// lowest file offset any read has touched so far
    pub lowest: Rc<Cell<u64>>,
    /// bytes read beyond the frame (8-byte length + compressed block) that starts at the last absolute seek
    pub over: Rc<Cell<u64>>,
    /// at most this many bytes are served per read call (a small BufReader-like source)
    pub max_read: usize,
    /// read calls so far; the call with this number fails, once, with an injected I/O error
    pub reads: Rc<Cell<u64>>,
    pub fail_read: Rc<Cell<Option<u64>>>,
    frame: Option<(u64, u64)>,
}
impl Counting {
    pub fn new(data: Vec<u8>) -> Counting {
        Counting {
            inner: Cursor::new(Rc::new(data)),
            seeks: Rc::new(Cell::new(0)),
            bytes: Rc::new(Cell::new(0)),
            lowest: Rc::new(Cell::new(u64::MAX)),
            over: Rc::new(Cell::new(0)),
            max_read: usize::MAX,
            reads: Rc::new(Cell::new(0)),
            fail_read: Rc::new(Cell::new(None)),
            frame: None,
        }
    }
    pub fn short(data: Vec<u8>, max_read: usize) -> Counting {
        Counting { max_read, ..Counting::new(data) }
    }
}
impl Read for Counting {
    fn read(&mut self, buf: &mut [u8]) -> io::Result<usize> {
        let r = self.reads.get();
        self.reads.set(r + 1);
        if self.fail_read.get() == Some(r) {
            self.fail_read.set(None);
            return Err(io::Error::new(io::ErrorKind::Other, "injected fault"));
        }
        let pos = self.inner.position() as usize;
        let data = self.inner.get_ref();
        let n = buf.len().min(data.len().saturating_sub(pos)).min(self.max_read);
        buf[..n].copy_from_slice(&data[pos..pos + n]);
        self.inner.set_position((pos + n) as u64);
        self.bytes.set(self.bytes.get() + n as u64);
        if n > 0 {
            self.lowest.set(self.lowest.get().min(pos as u64));
            // bytes served outside the frame [start, end) that the last absolute seek designated (wherever the
            // reads come from: continuing past the frame, or reading forward to the next block instead of seeking)
            if let Some((fs, fe)) = self.frame {
                let (a, b) = (pos as u64, (pos + n) as u64);
                let inside = b.min(fe).saturating_sub(a.max(fs));
                self.over.set(self.over.get() + (n as u64 - inside));
            }
        }
        Ok(n)
    }
}
impl Seek for Counting {
    fn seek(&mut self, pos: SeekFrom) -> io::Result<u64> {
        if let SeekFrom::Start(_) = pos {
            self.seeks.set(self.seeks.get() + 1);
        }
        let len = self.inner.get_ref().len() as i64;
        let new = match pos {
            SeekFrom::Start(p) => p as i64,
            SeekFrom::End(d) => len + d,
            SeekFrom::Current(d) => self.inner.position() as i64 + d,
        };
        if new < 0 {
            return Err(io::Error::new(io::ErrorKind::InvalidInput, "invalid seek to a negative or overflowing position"));
        }
        self.inner.set_position(new as u64);
        // an absolute seek starts a block load: the frame there is its 8-byte length and that many bytes; a seek
        // relative to the end (the trailer, at open) is not a block load; a relative seek leaves the frame as it is
        match pos {
            SeekFrom::Start(p) => {
                let data = self.inner.get_ref();
                self.frame = None;
                if (p as usize) + 8 <= data.len() {
                    let mut l = [0u8; 8];
                    l.copy_from_slice(&data[p as usize..p as usize + 8]);
                    self.frame = Some((p, p.saturating_add(8).saturating_add(u64::from_be_bytes(l))));
                }
            }
            SeekFrom::End(_) => self.frame = None,
            SeekFrom::Current(_) => {}
        }
        Ok(new as u64)
    }
}

#[derive(Clone, Debug)]
pub enum Op {
    First,
    Last,
    Next,
    Prev,
    Ge(Vec<u8>),
    Le(Vec<u8>),
    Eq(Vec<u8>),
    Reset,
    Current,
    Clone(usize),
}

/// probe keys covering every equivalence class of the quantifier for this content
pub fn probes(rng: &mut Rng, es: &[(Vec<u8>, Vec<u8>)]) -> Vec<Vec<u8>> {
    let mut out: Vec<Vec<u8>> = vec![vec![], vec![0], vec![0xff; 3], vec![0xff; 40]];
    for (k, _) in es {
        out.push(k.clone());
        let mut a = k.clone();
        a.push(0);
        out.push(a);
        let mut b = k.clone();
        b.push(0xff);
        out.push(b);
        if !k.is_empty() {
            out.push(k[..k.len() - 1].to_vec());
            let mut d = k.clone();
            let l = d.len() - 1;
            if d[l] > 0 {
                d[l] -= 1;
                out.push(d);
            }
        }
    }
    if let Some((f, _)) = es.first() {
        if !f.is_empty() {
            out.push(f[..f.len() - 1].to_vec());
        }
    }
    if let Some((l, _)) = es.last() {
        let mut a = l.clone();
        a.push(1);
        out.push(a);
    }
    for _ in 0..4 {
        out.push(gen_key(rng, 12));
    }
    out
}

fn fp_string(fp: &grenad::verif::CursorFingerprint) -> String {
    let b = |f: &grenad::verif::BlockFingerprint| {
        format!("{}:{:016x}", f.current_offset.map(|x| x.to_string()).unwrap_or("-".into()), f.buffer_hash)
    };
    let idx = match &fp.index {
        None => "-".to_string(),
        Some(v) if v.is_empty() => "0".to_string(),
        Some(v) => v.iter().map(b).collect::<Vec<_>>().join(","),
    };
    let data = match &fp.data {
        None => "-".to_string(),
        Some(d) => b(d),
    };
    format!("I={};D={}", idx, data)
}

pub fn op_token(op: &Op) -> String {
    match op {
        Op::First => "first -".to_string(),
        Op::Last => "last -".to_string(),
        Op::Next => "next -".to_string(),
        Op::Prev => "prev -".to_string(),
        Op::Ge(q) => format!("ge {}", hex(q)),
        Op::Le(q) => format!("le {}", hex(q)),
        Op::Eq(q) => format!("eq {}", hex(q)),
        Op::Reset => "reset -".to_string(),
        Op::Current => "current -".to_string(),
        Op::Clone(n) => format!("clone {}", n),
    }
}

pub fn apply_op<R: Read + Seek>(cur: &mut ReaderCursor<R>, op: &Op) -> Result<Option<(Vec<u8>, Vec<u8>)>, String> {
    let r = match op {
        Op::First => cur.move_on_first(),
        Op::Last => cur.move_on_last(),
        Op::Next => cur.move_on_next(),
        Op::Prev => cur.move_on_prev(),
        Op::Ge(q) => cur.move_on_key_greater_than_or_equal_to(q),
        Op::Le(q) => cur.move_on_key_lower_than_or_equal_to(q),
        Op::Eq(q) => cur.move_on_key_equal_to(q),
        Op::Reset => {
            cur.reset();
            Ok(None)
        }
        Op::Current => Ok(cur.current()),
        Op::Clone(_) => unreachable!(),
    };
    r.map(|o| o.map(|(k, v)| (k.to_vec(), v.to_vec()))).map_err(|e| err_class(&e))
}

/// Runs a history on any source; one result line per operation (no counters, no fingerprints).
pub fn run_history_on<R: Read + Seek + Clone>(src: R, ops: &[(usize, Op)]) -> Result<Vec<String>, String> {
    let reader = match catch(|| Reader::new(src)) {
        Ok(Ok(r)) => r,
        Ok(Err(e)) => return Err(format!("open err {}", err_class(&e))),
        Err(_) => return Err("open panic".to_string()),
    };
    let mut cursors: Vec<Option<ReaderCursor<R>>> = vec![Some(reader.into_cursor().map_err(|e| err_class(&e))?)];
    let mut lines = Vec::new();
    for (cid, op) in ops {
        if let Op::Clone(newid) = op {
            let c = cursors[*cid].as_ref().unwrap().clone();
            while cursors.len() <= *newid {
                cursors.push(None);
            }
            cursors[*newid] = Some(c);
            continue;
        }
        let cur = cursors[*cid].as_mut().unwrap();
        match catch(|| apply_op(cur, op)) {
            Ok(Ok(x)) => lines.push(format!("{:?}", x)),
            Ok(Err(e)) => {
                lines.push(format!("E {}", e));
                break;
            }
            Err(_) => {
                lines.push("P".to_string());
                break;
            }
        }
    }
    Ok(lines)
}

/// Runs a history on the real cursor(s); one output line per operation.
pub fn run_history(file: &[u8], ops: &[(usize, Op)], with_fp: bool) -> Result<Vec<String>, String> {
    run_history_fault(file, ops, with_fp, None).map(|(l, _)| l)
}

/// `fault`: the read call (counted after open) that fails once with an injected I/O error; the history
/// goes on after the failed operation.  Also returns the number of read calls made after open.
pub fn run_history_fault(file: &[u8], ops: &[(usize, Op)], with_fp: bool, fault: Option<u64>) -> Result<(Vec<String>, u64), String> {
    // every third file is served by a source returning at most 7 bytes per read call
    let src = if fnv(file) % 3 == 0 { Counting::short(file.to_vec(), 7) } else { Counting::new(file.to_vec()) };
    let seeks = src.seeks.clone();
    let bytes = src.bytes.clone();
    let lowest = src.lowest.clone();
    let over = src.over.clone();
    let (reads, fail_read) = (src.reads.clone(), src.fail_read.clone());
    let reader = match catch(|| Reader::new(src)) {
        Ok(Ok(r)) => r,
        Ok(Err(e)) => return Err(format!("open err {}", err_class(&e))),
        Err(_) => return Err("open panic".to_string()),
    };
    // C16: opening consults the trailer only — no absolute seek (no block load) and at most the
    // 22 trailer bytes read, whatever the size of the file and its codec
    let (open_seeks, open_bytes) = (seeks.get(), bytes.get());
    // the trailer of this file: 22 bytes (version 2) or 21 bytes (version 1)
    let trailer = if matches!(reader.file_version(), grenad::FileVersion::FormatV1) { 21u64 } else { 22u64 };
    let lowest_read = lowest.get();
    if open_seeks != 0 || open_bytes > 22 || (lowest_read != u64::MAX && lowest_read + trailer < file.len() as u64) {
        println!("DIRECT fail open: Reader::new did {} absolute seek(s) and read {} bytes, the lowest at offset {}, of a {}-byte file (its trailer is the last {} bytes)",
                 open_seeks, open_bytes, lowest_read, file.len(), trailer);
    }
    let mut cursors: Vec<Option<ReaderCursor<Counting>>> = vec![Some(reader.into_cursor().map_err(|e| err_class(&e))?)];
    let mut lines = Vec::new();
    let mut dead = false;
    let reads_at_open = reads.get();
    if let Some(k) = fault {
        fail_read.set(Some(reads_at_open + k));
    }
    for (cid, op) in ops {
        let opname = match op {
            Op::First => "first -".to_string(),
            Op::Last => "last -".to_string(),
            Op::Next => "next -".to_string(),
            Op::Prev => "prev -".to_string(),
            Op::Ge(q) => format!("ge {}", hex(q)),
            Op::Le(q) => format!("le {}", hex(q)),
            Op::Eq(q) => format!("eq {}", hex(q)),
            Op::Reset => "reset -".to_string(),
            Op::Current => "current -".to_string(),
            Op::Clone(n) => format!("clone {}", n),
        };
        if dead {
            break;
        }
        if let Op::Clone(newid) = op {
            let c = cursors[*cid].as_ref().unwrap().clone();
            if lines.len() % 2 == 0 {
                // a clone is a value copy: the original may be dropped (here: replaced by a second clone
                // of itself) without the clones noticing
                let c2 = c.clone();
                cursors[*cid] = Some(c2);
            }
            while cursors.len() <= *newid {
                cursors.push(None);
            }
            cursors[*newid] = Some(c);
            lines.push(format!("o {} {} = C", cid, opname));
            continue;
        }
        let before = seeks.get();
        // every other reset goes through the other public route to a fresh cursor:
        // ReaderCursor::into_reader followed by Reader::into_cursor
        if matches!(op, Op::Reset) && lines.len() % 2 == 1 {
            let old = cursors[*cid].take().unwrap();
            match catch(move || old.into_reader().into_cursor()) {
                Ok(Ok(fresh)) => cursors[*cid] = Some(fresh),
                Ok(Err(e)) => {
                    lines.push(format!("o {} {} = E {} 0", cid, opname, err_class(&e)));
                    break;
                }
                Err(_) => {
                    lines.push(format!("o {} {} = P", cid, opname));
                    break;
                }
            }
        }
        let cur = cursors[*cid].as_mut().unwrap();
        let res = catch(|| -> Result<Option<(Vec<u8>, Vec<u8>)>, String> {
            let r = match op {
                Op::First => cur.move_on_first(),
                Op::Last => cur.move_on_last(),
                Op::Next => cur.move_on_next(),
                Op::Prev => cur.move_on_prev(),
                Op::Ge(q) => cur.move_on_key_greater_than_or_equal_to(q),
                Op::Le(q) => cur.move_on_key_lower_than_or_equal_to(q),
                Op::Eq(q) => cur.move_on_key_equal_to(q),
                Op::Reset => {
                    cur.reset();
                    Ok(None)
                }
                Op::Current => Ok(cur.current()),
                Op::Clone(_) => unreachable!(),
            };
            r.map(|o| o.map(|(k, v)| (k.to_vec(), v.to_vec()))).map_err(|e| err_class(&e))
        });
        let loads = seeks.get() - before;
        // C16: a block load reads the frame it sought (8-byte length + compressed block), not its neighbours
        if over.get() > 0 {
            println!("DIRECT fail load: operation {} of cursor {} read {} byte(s) beyond the frame(s) of the {} block(s) it sought ({}-byte file)",
                     opname, cid, over.get(), loads, file.len());
            over.set(0);
        }
        let fp = if with_fp { fp_string(&cursors[*cid].as_ref().unwrap().verif_fingerprint()) } else { "-".to_string() };
        match res {
            Ok(Ok(Some((k, v)))) => lines.push(format!("o {} {} = S {} {} {} {}", cid, opname, hex(&k), hex(&v), loads, fp)),
            Ok(Ok(None)) => lines.push(format!("o {} {} = N {} {}", cid, opname, loads, fp)),
            Ok(Err(e)) if fault.is_some() && e == "io7" => {
                // the injected failure surfaced as the I/O error: the history goes on with this cursor
                lines.push(format!("o {} {} = F", cid, opname));
            }
            Ok(Err(e)) => {
                lines.push(format!("o {} {} = E {} {}", cid, opname, e, loads));
                dead = true;
            }
            Err(_) => {
                lines.push(format!("o {} {} = P", cid, opname));
                dead = true;
            }
        }
    }
    Ok((lines, reads.get() - reads_at_open))
}

/// position exactly on the stored key k, issue an absolute seek that finds nothing (beyond the last key,
/// or below the first), seek exactly onto k again, then walk until well past the end of its block
fn failed_seek_pattern(rng: &mut Rng, ops: &mut Vec<(usize, Op)>, cid: usize, k: Vec<u8>, maxrun: u64) {
    ops.push((cid, match rng.below(4) { 0 => Op::Le(k.clone()), 1 => Op::Eq(k.clone()), _ => Op::Ge(k.clone()) }));
    let fwd = rng.chance(2, 3);
    ops.push((cid, if fwd {
        match rng.below(3) { 0 => Op::Ge(vec![0xff; 40]), 1 => Op::Eq(vec![0xff; 40]), _ => Op::Ge(vec![0xff; 41]) }
    } else {
        Op::Le(Vec::new())
    }));
    ops.push((cid, match rng.below(5) { 0 => Op::Ge(k), 1 => Op::Le(k), _ => Op::Eq(k) }));
    for _ in 0..rng.range(2, maxrun) {
        ops.push((cid, if fwd { Op::Next } else { Op::Prev }));
    }
}

pub fn gen_history(rng: &mut Rng, es: &[(Vec<u8>, Vec<u8>)], len: usize, style: u32) -> Vec<(usize, Op)> {
    let pr = probes(rng, es);
    let mut ops = Vec::new();
    let mut ncur = 1usize;
    let q = |rng: &mut Rng| pr[rng.below(pr.len() as u64) as usize].clone();
    match style {
        // C02: every seek on a fresh or reset cursor
        0 => {
            for i in 0..len {
                if i > 0 {
                    ops.push((0, Op::Reset));
                }
                let k = q(rng);
                ops.push((0, match rng.below(3) { 0 => Op::Ge(k), 1 => Op::Le(k), _ => Op::Eq(k) }));
                if rng.chance(1, 4) {
                    ops.push((0, Op::Current));
                }
            }
        }
        // walk-back histories: absolute move, long runs of prev across block boundaries, exact seeks
        // onto stored keys, prev again (the shape a backward-iteration memo in the block cursor breaks)
        2 => {
            if !es.is_empty() {
                ops.push((0, Op::Last));
                ops.push((0, Op::Ge(es[rng.below(es.len() as u64) as usize].0.clone())));
                while ops.len() < len {
                    for _ in 0..rng.range(2, 12) {
                        ops.push((0, Op::Prev));
                    }
                    let k = es[rng.below(es.len() as u64) as usize].0.clone();
                    ops.push((0, match rng.below(4) { 0 => Op::Ge(k), 1 => Op::Le(k), 2 => Op::Eq(k), _ => Op::Ge(k) }));
                    for _ in 0..rng.range(2, 12) {
                        ops.push((0, Op::Prev));
                    }
                    if rng.chance(1, 4) {
                        for _ in 0..rng.range(1, 6) {
                            ops.push((0, Op::Next));
                        }
                    }
                    if rng.chance(1, 3) {
                        let k = es[rng.below(es.len() as u64) as usize].0.clone();
                        failed_seek_pattern(rng, &mut ops, 0, k, 6);
                    }
                }
            }
        }
        // C17: clone-heavy histories: position, clone, move the original far away (its blocks are
        // released), read through the clone, and so on
        3 => {
            while ops.len() < len {
                let cid = rng.below(ncur as u64) as usize;
                ops.push((cid, match rng.below(5) { 0 => Op::First, 1 => Op::Last, 2 => Op::Ge(q(rng)), 3 => Op::Le(q(rng)), _ => Op::Next }));
                if ncur < 6 {
                    ops.push((cid, Op::Clone(ncur)));
                    let cl = ncur;
                    ncur += 1;
                    ops.push((cid, match rng.below(4) { 0 => Op::First, 1 => Op::Last, 2 => Op::Reset, _ => Op::Ge(q(rng)) }));
                    ops.push((cl, Op::Current));
                    for _ in 0..rng.range(1, 5) {
                        ops.push((cl, if rng.chance(1, 2) { Op::Next } else { Op::Prev }));
                    }
                    ops.push((cid, Op::Current));
                } else {
                    ops.push((cid, Op::Current));
                    for _ in 0..rng.range(1, 8) {
                        ops.push((cid, if rng.chance(1, 2) { Op::Next } else { Op::Prev }));
                    }
                }
            }
        }
        // C03: random histories; runs of relative moves followed by absolute moves (the D2 shape)
        _ => {
            while ops.len() < len {
                let cid = rng.below(ncur as u64) as usize;
                if rng.chance(1, 12) && !es.is_empty() {
                    // an absolute seek that finds nothing, an exact seek onto a stored key (often the last of
                    // its block), then a walk across the block boundary
                    let k = es[rng.below(es.len() as u64) as usize].0.clone();
                    failed_seek_pattern(rng, &mut ops, cid, k, 30);
                    continue;
                }
                match rng.below(20) {
                    0..=6 => {
                        let run = rng.range(1, 14);
                        let fwd = rng.chance(1, 2);
                        for _ in 0..run {
                            ops.push((cid, if fwd { Op::Next } else { Op::Prev }));
                        }
                    }
                    7 | 8 => ops.push((cid, Op::Ge(q(rng)))),
                    9 | 10 => ops.push((cid, Op::Le(q(rng)))),
                    11 => ops.push((cid, Op::Eq(q(rng)))),
                    12 => ops.push((cid, Op::First)),
                    13 => ops.push((cid, Op::Last)),
                    14 | 15 => ops.push((cid, Op::Current)),
                    16 => ops.push((cid, Op::Reset)),
                    17 if ncur < 4 => {
                        ops.push((cid, Op::Clone(ncur)));
                        ncur += 1;
                    }
                    18 => {
                        // walk back over several block boundaries, seek exactly onto a stored key
                        // (often the last key of a block), walk back again: in-block backward memo shape
                        if !es.is_empty() {
                            let run1 = rng.range(3, 30);
                            for _ in 0..run1 {
                                ops.push((cid, Op::Prev));
                            }
                            let k = es[rng.below(es.len() as u64) as usize].0.clone();
                            ops.push((cid, match rng.below(3) { 0 => Op::Ge(k), 1 => Op::Le(k), _ => Op::Eq(k) }));
                            let run2 = rng.range(3, 30);
                            for _ in 0..run2 {
                                ops.push((cid, Op::Prev));
                            }
                        }
                    }
                    _ => {
                        // seek back to an early key after having moved: stale-cache pattern
                        if let Some((k, _)) = es.get(rng.below(es.len().max(1) as u64) as usize) {
                            ops.push((cid, Op::Ge(k.clone())));
                        }
                    }
                }
            }
        }
    }
    ops
}

/// hand-assembled V1 trailer over the body of a single-level V2 file
pub fn to_v1(file: &[u8]) -> Vec<u8> {
    let n = file.len();
    let body = &file[..n - 22];
    let t = &file[n - 22..];
    let mut out = body.to_vec();
    out.extend_from_slice(&t[0..8]); // root offset u64 LE
    out.push(t[8]); // codec id
    out.extend_from_slice(&t[9..17]); // count u64 LE
    out.extend_from_slice(&0x76324D4Cu32.to_le_bytes());
    out
}

pub fn emit_hist<W: Write>(c: &mut Cases<W>, cfg: &FileCfg, es: &[(Vec<u8>, Vec<u8>)], file: &[u8], ops: &[(usize, Op)], with_fp: bool) {
    emit_hist_fault(c, cfg, es, file, ops, with_fp, None)
}

/// `fault`: Some(x) = one read call of the history, chosen by x among those a fault-free run makes, fails once
pub fn emit_hist_fault<W: Write>(c: &mut Cases<W>, cfg: &FileCfg, es: &[(Vec<u8>, Vec<u8>)], file: &[u8], ops: &[(usize, Op)], with_fp: bool, fault: Option<u64>) {
    let fault = match fault {
        None => None,
        Some(x) => match run_history_fault(file, ops, false, None) {
            Ok((_, n)) if n > 0 => Some(x % n),
            _ => return,
        },
    };
    c.begin("hist");
    c.line(&format!("prop {}", c.prop.clone()));
    if let Some(t) = c.pending_tag.take() {
        c.line(&t);
    }
    c.line(&cfg.line());
    if let Some(k) = fault {
        c.line(&format!("fault read {}", k));
        c.bump("histories.with_transient_read_failure", 1);
    }
    c.line(&format!("file {}", hex(file)));
    ztable_body(c, cfg.codec, file);
    for (k, v) in es {
        c.line(&format!("e {} {}", hex(k), hex(v)));
    }
    for (cid, op) in ops {
        c.line(&format!("planned {} {:?}", cid, op));
    }
    c.checkpoint();
    match catch(|| Reader::new(Cursor::new(file)).map(|r| {
        if r.is_empty() != (r.len() == 0) {
            println!("DIRECT fail Reader::is_empty() = {} but len() = {}", r.is_empty(), r.len());
        }
        (r.file_version() as u32, r.compression_type() as u8, r.len())
    })) {
        Ok(Ok((ver, codec, len))) => {
            c.line(&format!("meta {} {} {}", ver, codec, len));
            // what the reader reports does not change by being turned into a cursor (Deref), used, and turned
            // back into a reader
            let seen = catch(|| -> Result<Vec<(u32, u8, u64)>, String> {
                let mut cur = Reader::new(Cursor::new(file)).map_err(|e| err_class(&e))?.into_cursor().map_err(|e| err_class(&e))?;
                let mut v = vec![(cur.file_version() as u32, cur.compression_type() as u8, cur.len())];
                let _ = cur.move_on_first().map_err(|e| err_class(&e))?;
                v.push((cur.file_version() as u32, cur.compression_type() as u8, cur.len()));
                let r = cur.into_reader();
                v.push((r.file_version() as u32, r.compression_type() as u8, r.len()));
                Ok(v)
            });
            match seen {
                Ok(Ok(v)) => {
                    if v.iter().any(|x| *x != (ver, codec, len)) {
                        println!("DIRECT fail the reader opened as (version {}, codec {}, count {}) reports {:?} through its cursor / after into_reader", ver, codec, len, v);
                    }
                }
                Ok(Err(e)) => println!("DIRECT fail into_cursor / move_on_first on an opened file failed: {}", e),
                Err(_) => println!("DIRECT fail into_cursor / move_on_first / into_reader panicked"),
            }
        }
        Ok(Err(e)) => c.line(&format!("meta err {} -", err_class(&e))),
        Err(_) => c.line("meta panic - -"),
    }
    match run_history_fault(file, ops, with_fp && fault.is_none(), fault).map(|(l, _)| l) {
        Ok(lines) => {
            let mut h = fnv(file);
            for l in &lines {
                c.line(l);
                h ^= fnv(l.as_bytes());
            }
            c.bump("ops.total", lines.len() as u64);
            for (_, op) in ops {
                c.bump(&format!("op.{}", format!("{:?}", op).split('(').next().unwrap().to_lowercase()), 1);
            }
            if es.len() >= 2 && lines.len() >= 2 {
                c.nontrivial(&h.to_le_bytes());
            }
        }
        Err(e) => c.line(&format!("openfail {}", e)),
    }
    c.end();
}

/// like gen::ztable but tolerant of V1 trailers (21 bytes)
pub fn ztable_body<W: Write>(c: &mut Cases<W>, codec: CompressionType, file: &[u8]) {
    if codec == CompressionType::None || file.len() < 22 {
        return;
    }
    let tl = if file[file.len() - 4..] == 0x76324D4Cu32.to_le_bytes() { 21 } else { 22 };
    for (_, comp) in frames(file, file.len() - tl) {
        let mut unc = Vec::new();
        if catch(|| grenad::verif::decompress(codec, &comp[..], &mut unc)).map(|r| r.is_ok()).unwrap_or(false) {
            c.line(&format!("z {} {}", hex(&unc), hex(&comp)));
        }
    }
}

/// number of tree levels (below the root) that have at least two blocks — the D2 shape
pub fn multi_block_levels(file: &[u8], levels: u8) -> usize {
    // cheap proxy: count frames; with L index levels a file with only one block per index level has
    // (#data blocks + L + 1) frames where level 1 and root are single
    let n = if file.len() >= 22 { frames(file, file.len() - 22).len() } else { 0 };
    if levels >= 2 && n > 12 { 1 } else { 0 }
}

pub fn generate<W: Write>(c: &mut Cases<W>, rng: &mut Rng, thorough: bool, which: &str) {
    let nfiles = match (which, thorough) {
        ("C02", false) => 120, ("C02", true) => 2500,
        ("C03", false) => 160, ("C03", true) => 3000,
        ("C16", false) => 100, ("C16", true) => 1500,
        ("C10", false) => 80, ("C10", true) => 1200,
        ("C17", false) => 60, ("C17", true) => 1500,
        _ => 100,
    };
    // regression corpus first: the D2 replay (index_levels 2, history first; GE(k1); next x11; GE(k1))
    {
        let cfg = FileCfg { codec: CompressionType::None, level: 0, block_size: 1024, unclamped: false, interval: None, levels: 2 };
        let es: Vec<(Vec<u8>, Vec<u8>)> = (0..200u32)
            .map(|i| {
                let mut k = format!("{:08}", i).into_bytes();
                k.extend(std::iter::repeat(b'x').take(292));
                (k, vec![b'v'; 100])
            })
            .collect();
        if let WriteOutcome::File(f) = write_file(&cfg, &es) {
            let mut ops = vec![(0, Op::First), (0, Op::Ge(es[1].0.clone()))];
            for _ in 0..11 {
                ops.push((0, Op::Next));
            }
            ops.push((0, Op::Ge(es[1].0.clone())));
            ops.push((0, Op::Current));
            emit_hist(c, &cfg, &es, &f, &ops, true);
        }
    }
    // the deepest index trees the format allows: index_levels 254 and 255 (u8 arithmetic on the depth)
    if which != "C10" {
        for levels in [254u8, 255] {
            let cfg = FileCfg { codec: CompressionType::None, level: 0, block_size: 64, unclamped: true, interval: Some(2), levels };
            let es: Vec<(Vec<u8>, Vec<u8>)> = (0..9u32).map(|i| (vec![i as u8, 1], vec![i as u8; 30])).collect();
            if let WriteOutcome::File(f) = write_file(&cfg, &es) {
                let ops = gen_history(rng, &es, 30, if which == "C02" { 0 } else { 1 });
                emit_hist(c, &cfg, &es, &f, &ops, which == "C03");
            }
        }
    }
    if which == "C10" {
        for i in 0..400u64 {
            let root = if i % 3 == 0 { rng.next() } else { rng.below(1 << 20) };
            let count = match i % 4 { 0 => rng.next(), 1 => (1u64 << 32) + rng.below(9), 2 => u64::MAX - rng.below(3), _ => rng.below(1000) };
            let codec = (i % 8) as u8;
            let mut t = vec![0xEEu8; (i % 5) as usize];
            t.extend_from_slice(&root.to_le_bytes());
            t.push(codec);
            t.extend_from_slice(&count.to_le_bytes());
            t.extend_from_slice(&0x76324D4Cu32.to_le_bytes());
            let res = match catch(|| Reader::new(Cursor::new(&t[..])).map(|r| (r.file_version() as u32, r.compression_type() as u8, r.len()))) {
                Ok(Ok((v, cd, n))) => format!("ok {} {} {}", v, cd, n),
                Ok(Err(e)) => format!("err {}", err_class(&e)),
                Err(_) => "panic".to_string(),
            };
            c.begin("open");
            c.line(&format!("len {}", t.len()));
            c.line(&format!("tail {}", hex(&t)));
            c.line(&format!("res {}", res));
            c.line(&format!("v1 {} {}", codec, count));
            c.end();
        }
    }
    let mut deep_files = 0u64;
    for i in 0..nfiles {
        let deep = which != "C10" && i % 4 != 3;
        let mut cfg = gen_cfg(rng, deep, i % 5 == 4);
        if which == "C10" {
            cfg.levels = 0;
            // every codec in turn: the V1 trailer stores the codec id too
            cfg.codec = CODECS[i % 6];
        }
        if cfg.levels > 8 {
            cfg.levels = (cfg.levels % 5) + 1;
        }
        if which == "C16" && i % 8 == 7 {
            cfg.levels = 0;
        }
        let mut es = bounded_entries(rng, &cfg, if deep { 250 } else { 300 }, if deep { 5000 } else { 30000 });
        if which == "C03" && i % 4 == 1 {
            // one entry per data block, few index levels, an in-block index interval of 3..8: every key is
            // the last key of its data block and every third..eighth block sits on an indexed offset
            cfg = FileCfg { codec: CompressionType::None, level: 0, block_size: 16, unclamped: true,
                            interval: Some(*rng.pick(&[3usize, 3, 4, 8])), levels: (i % 3 == 0) as u8 };
            es = (0..(40 + rng.below(60)) as u32).map(|x| (x.to_be_bytes().to_vec(), vec![x as u8; 24])).collect();
        }
        let file = match write_file(&cfg, &es) {
            WriteOutcome::File(f) => f,
            _ => continue,
        };
        deep_files += multi_block_levels(&file, cfg.levels) as u64;
        let style = if which == "C02" { 0 } else if which == "C03" && i % 4 == 1 { 2 } else if which == "C17" && i % 3 != 2 { 3 } else { 1 };
        let hlen = match which { "C02" => 40, "C03" => if style == 2 { 160 } else { 70 }, "C16" => 50, "C17" => 60, _ => 40 };
        let ops = gen_history(rng, &es, hlen, style);
        if which == "C10" {
            let v1 = to_v1(&file);
            emit_hist(c, &cfg, &es, &v1, &ops, false);
            emit_hist(c, &cfg, &es, &file, &ops, false);
            if i % 3 == 0 {
                // the same version-1 file with an arbitrary 64-bit stored count (the count is reported by
                // len() and used for nothing else: every query must be unaffected)
                let count: u64 = match i % 9 { 0 => u64::MAX, 3 => 1u64 << 56, _ => (0xA5u64 << 56) | 7 };
                let mut patched = v1.clone();
                let n = patched.len();
                patched[n - 12..n - 4].copy_from_slice(&count.to_le_bytes());
                c.pending_tag = Some(format!("storedcount {}", count));
                emit_hist(c, &cfg, &es, &patched, &ops, false);
            }
        } else {
            emit_hist(c, &cfg, &es, &file, &ops, which == "C03");
            if which == "C03" && i % 2 == 0 {
                // the same history with one read call failing once: the failed operation returns the I/O
                // error, and the absolute moves that follow are as unaffected by it as by anything else
                emit_hist_fault(c, &cfg, &es, &file, &ops, false, Some(rng.next()));
            }
            if which == "C16" && cfg.levels == 0 {
                // the version-1 twin: its trailer is 21 bytes, opening must not read below it
                c.bump("files.v1_twin", 1);
                emit_hist(c, &cfg, &es, &to_v1(&file), &ops, false);
            }
        }
    }
    c.bump("files.multi_block_nonroot_level", deep_files);
}

// ------------------------------------------------------------------ iterators (C04 / C05)
fn mk_src(file: &[u8]) -> Counting {
    if fnv(file) % 3 == 0 { Counting::short(file.to_vec(), 5) } else { Counting::new(file.to_vec()) }
}

fn bound_str(b: &Bound<Vec<u8>>) -> String {
    match b {
        Bound::Unbounded => "u -".to_string(),
        Bound::Included(x) => format!("i {}", hex(x)),
        Bound::Excluded(x) => format!("x {}", hex(x)),
    }
}

/// collects an iterator; with `$clone_after = Some(n)` the iterator is replaced by a clone of itself
/// (and the original dropped) after n calls of next: a clone is a value copy and continues identically
macro_rules! run_iter {
    ($it:expr, $clone_after:expr) => {{
        let mut it = $it;
        let ca: Option<usize> = $clone_after;
        let mut n = 0usize;
        collect_iter(|| {
            if Some(n) == ca {
                let it2 = it.clone();
                it = it2;
            }
            n += 1;
            it.next().map(|o| o.map(|(k, v)| (k.to_vec(), v.to_vec()))).map_err(|e| err_class(&e))
        })
    }};
}

/// A handle on a file whose position is shared with the other handles (two readers over one `&File`, or
/// over clones of one descriptor): every user must seek before it reads.
#[derive(Clone)]
pub struct SharedSrc(pub Rc<std::cell::RefCell<Cursor<Vec<u8>>>>);
impl Read for SharedSrc {
    fn read(&mut self, buf: &mut [u8]) -> io::Result<usize> {
        self.0.borrow_mut().read(buf)
    }
}
impl Seek for SharedSrc {
    fn seek(&mut self, pos: SeekFrom) -> io::Result<u64> {
        self.0.borrow_mut().seek(pos)
    }
}

/// two iterators of the same query over two readers sharing one file position, stepped alternately: both
/// must yield what a lone iterator yields
macro_rules! run_pair {
    ($mk:expr) => {{
        let mut a = $mk;
        let mut b = $mk;
        let (mut ra, mut rb) = (Vec::new(), Vec::new());
        let (mut da, mut db) = (false, false);
        let r = catch(|| -> Result<(), String> {
            while !(da && db) {
                if !da {
                    match a.next().map_err(|e| err_class(&e))? { Some((k, v)) => ra.push((k.to_vec(), v.to_vec())), None => da = true }
                }
                if !db {
                    match b.next().map_err(|e| err_class(&e))? { Some((k, v)) => rb.push((k.to_vec(), v.to_vec())), None => db = true }
                }
                if ra.len() > 1_000_000 { return Err("runaway".into()); }
            }
            Ok(())
        });
        let fmt = |items: &Vec<(Vec<u8>, Vec<u8>)>| {
            let (n, h) = entries_hash(items.iter().map(|(k, v)| (&k[..], &v[..])));
            let first = items.first().map(|(k, _)| hex(k)).unwrap_or("-".into());
            let last = items.last().map(|(k, _)| hex(k)).unwrap_or("-".into());
            format!("{} {:016x} {} {}", n, h, first, last)
        };
        match r {
            Ok(Ok(())) => if ra == rb { fmt(&ra) } else { format!("sharedpos-differ {} {}", fmt(&ra).replace(' ', "_"), fmt(&rb).replace(' ', "_")) },
            Ok(Err(e)) => format!("err {} - -", e),
            Err(_) => "panic - - -".to_string(),
        }
    }};
}

fn collect_iter(mut next: impl FnMut() -> Result<Option<(Vec<u8>, Vec<u8>)>, String>) -> String {
    let r = catch(|| -> Result<Vec<(Vec<u8>, Vec<u8>)>, String> {
        let mut out = Vec::new();
        while let Some(e) = next()? {
            out.push(e);
            if out.len() > 1_000_000 {
                return Err("runaway".into());
            }
        }
        Ok(out)
    });
    match r {
        Ok(Ok(items)) => {
            let (n, h) = entries_hash(items.iter().map(|(k, v)| (&k[..], &v[..])));
            let first = items.first().map(|(k, _)| hex(k)).unwrap_or("-".into());
            let last = items.last().map(|(k, _)| hex(k)).unwrap_or("-".into());
            format!("{} {:016x} {} {}", n, h, first, last)
        }
        Ok(Err(e)) => format!("err {} - -", e),
        Err(_) => "panic - - -".to_string(),
    }
}

/// An entry far above any "reasonable" block size (a block holds at least one whole entry whatever the block
/// size, and the format puts no bound on it): 17 MiB (thorough: also 70 MiB) between two small entries, for
/// every codec; scans, ranges and prefixes in both directions must yield it (implementation only: the
/// theorems cover such sizes, the extracted model does not execute them)
fn big_entry_direct<W: Write>(c: &mut Cases<W>, thorough: bool) {
    let sizes: &[usize] = if thorough { &[17 << 20, 70 << 20] } else { &[17 << 20] };
    for &size in sizes {
        let big: Vec<u8> = (0..size).map(|x| ((x % 251) ^ (x >> 13)) as u8).collect();
        for codec in CODECS {
            let cfg = FileCfg { codec, level: 1, block_size: 4096, unclamped: false, interval: None, levels: (size % 3) as u8 };
            let es = vec![(vec![1u8, 1], vec![5u8; 10]), (vec![2u8, 0], big.clone()), (vec![2u8, 7], vec![6u8; 10]), (vec![3u8], vec![])];
            let file = match write_file(&cfg, &es) {
                WriteOutcome::File(f) => f,
                _ => { println!("DIRECT fail a file with a {} MiB value (codec {}) could not be written", size >> 20, codec as u8); continue; }
            };
            c.bump("iter.big_entry_files", 1);
            let want_all: Vec<(Vec<u8>, Vec<u8>)> = es.clone();
            let want_p2: Vec<(Vec<u8>, Vec<u8>)> = es[1..3].to_vec();
            let got = catch(|| -> Result<Vec<Vec<(Vec<u8>, Vec<u8>)>>, String> {
                let mut outs = Vec::new();
                macro_rules! drain { ($it:expr) => {{ let mut it = $it; let mut v = Vec::new();
                    while let Some((k, val)) = it.next().map_err(|e| err_class(&e))? { v.push((k.to_vec(), val.to_vec())); if v.len() > 8 { break; } } v }} }
                let rd = || Reader::new(Cursor::new(&file[..])).map_err(|e| err_class(&e));
                outs.push(drain!(rd()?.into_prefix_iter(vec![2u8]).map_err(|e| err_class(&e))?));
                outs.push(drain!(rd()?.into_rev_prefix_iter(vec![2u8]).map_err(|e| err_class(&e))?));
                outs.push(drain!(rd()?.into_range_iter::<_, Vec<u8>>(..).map_err(|e| err_class(&e))?));
                outs.push(drain!(rd()?.into_rev_range_iter::<_, Vec<u8>>(..).map_err(|e| err_class(&e))?));
                Ok(outs)
            });
            let rev = |v: &Vec<(Vec<u8>, Vec<u8>)>| { let mut r = v.clone(); r.reverse(); r };
            match got {
                Ok(Ok(outs)) => {
                    let wants = [want_p2.clone(), rev(&want_p2), want_all.clone(), rev(&want_all)];
                    for (qi, (o, w)) in outs.iter().zip(wants.iter()).enumerate() {
                        if o != w {
                            println!("DIRECT fail file with a {} MiB value, codec {}: query {} (0 prefix, 1 reverse prefix, 2 full range, 3 reverse full range) yields {} entries instead of {} or other bytes",
                                     size >> 20, codec as u8, qi, o.len(), w.len());
                        }
                    }
                }
                Ok(Err(e)) => println!("DIRECT fail file with a {} MiB value, codec {}: an iterator returned {}", size >> 20, codec as u8, e),
                Err(_) => println!("DIRECT fail file with a {} MiB value, codec {}: an iterator panicked", size >> 20, codec as u8),
            }
        }
    }
}

pub fn generate_iter<W: Write>(c: &mut Cases<W>, rng: &mut Rng, thorough: bool, which: &str) {
    big_entry_direct(c, thorough);
    let nfiles = if thorough { 2500 } else { 130 };
    let per_file = 24;
    for i in 0..nfiles {
        let deep = i % 3 != 2;
        let mut cfg = gen_cfg(rng, deep, i % 6 == 5);
        if cfg.levels > 8 {
            cfg.levels = (cfg.levels % 5) + 1;
        }
        let mut es = bounded_entries(rng, &cfg, 250, if deep { 5000 } else { 25000 });
        if i < 2 {
            // the deepest index trees the format allows
            cfg = FileCfg { codec: CompressionType::None, level: 0, block_size: 64, unclamped: true, interval: Some(2), levels: 254 + i as u8 };
            es = (0..9u32).map(|x| (vec![x as u8, 1], vec![x as u8; 30])).collect();
        }
        if (2..8).contains(&i) {
            // every codec: a data block of 150 kB that compresses more than tenfold (longer than any
            // internal chunk of the codecs' framing) between small entries
            cfg = FileCfg { codec: CODECS[i % 6], level: [1u32, 6, 3][i % 3], block_size: 2048, unclamped: false, interval: None, levels: (i % 2) as u8 };
            let big: Vec<u8> = (0..150_000usize).map(|x| (x % 13) as u8).collect();
            es = vec![(vec![1u8, 0], vec![5u8; 10]), (vec![1u8, 1], big), (vec![1u8, 2], vec![6u8; 10]), (vec![2u8], vec![7u8; 3])];
            c.bump("files.big_compressible_block", 1);
        }
        let file = match write_file(&cfg, &es) {
            WriteOutcome::File(f) => f,
            _ => continue,
        };
        let pr = probes(rng, &es);
        c.begin("iter");
        c.line(&format!("prop {}", which));
        c.line(&cfg.line());
        c.line(&format!("file {}", hex(&file)));
        ztable_body(c, cfg.codec, &file);
        for (k, v) in &es {
            c.line(&format!("e {} {}", hex(k), hex(v)));
        }
        let mut h = fnv(&file);
        for j in 0..per_file {
            let pick = |rng: &mut Rng| pr[rng.below(pr.len() as u64) as usize].clone();
            if which == "C04" {
                let mk = |rng: &mut Rng, kind: u64, v: Vec<u8>| match kind { 0 => Bound::Unbounded, 1 => Bound::Included(v), _ => Bound::Excluded(v) };
                let a = pick(rng);
                // forced rates of equal / inverted bounds
                let b = match rng.below(6) { 0 => a.clone(), _ => pick(rng) };
                let lo = mk(rng, (j % 3) as u64, a);
                let hi = mk(rng, ((j / 3) % 3) as u64, b);
                let rev = rng.chance(1, 2);
                let clone_after = if j % 2 == 1 { Some(rng.below(7) as usize) } else { None };
                if clone_after.is_some() {
                    c.bump("iter.cloned_midway", 1);
                }
                let res = if j % 6 == 0 {
                    c.bump("iter.shared_position_pairs", 1);
                    let shared = SharedSrc(Rc::new(std::cell::RefCell::new(Cursor::new(file.clone()))));
                    if rev {
                        run_pair!(Reader::new(shared.clone()).unwrap().into_rev_range_iter((lo.clone(), hi.clone())).unwrap())
                    } else {
                        run_pair!(Reader::new(shared.clone()).unwrap().into_range_iter((lo.clone(), hi.clone())).unwrap())
                    }
                } else if rev {
                    run_iter!(Reader::new(mk_src(&file)).unwrap().into_rev_range_iter((lo.clone(), hi.clone())).unwrap(), clone_after)
                } else {
                    run_iter!(Reader::new(mk_src(&file)).unwrap().into_range_iter((lo.clone(), hi.clone())).unwrap(), clone_after)
                };
                let l = format!("q range {} {} {} = {}", bound_str(&lo), bound_str(&hi), if rev { "rev" } else { "fwd" }, res);
                h ^= fnv(l.as_bytes());
                c.line(&l);
                c.bump(&format!("range.{}{}", &bound_str(&lo)[..1], &bound_str(&hi)[..1]), 1);
            } else {
                // prefixes: probe, proper prefix of a stored key, 0xFF runs, one whose successor is stored
                let p: Vec<u8> = match rng.below(8) {
                    0 => vec![],
                    1 => vec![0xff; rng.range(1, 4) as usize],
                    2 | 3 => { let k = pick(rng); let l = rng.below(k.len() as u64 + 1) as usize; k[..l].to_vec() }
                    4 => {
                        // a prefix whose advance_key is a stored key: stored key minus one at the last byte
                        let k = pick(rng);
                        if let Some((&lastb, head)) = k.split_last() { if lastb > 0 { let mut p = head.to_vec(); p.push(lastb - 1); p } else { k } } else { k }
                    }
                    5 => { let mut k = pick(rng); k.push(0xff); k }
                    _ => pick(rng),
                };
                let rev = rng.chance(1, 2);
                let clone_after = if j % 2 == 1 { Some(rng.below(7) as usize) } else { None };
                if clone_after.is_some() {
                    c.bump("iter.cloned_midway", 1);
                }
                let res = if j % 6 == 0 {
                    // two readers over one shared file position, stepped alternately
                    c.bump("iter.shared_position_pairs", 1);
                    let shared = SharedSrc(Rc::new(std::cell::RefCell::new(Cursor::new(file.clone()))));
                    if rev {
                        run_pair!(Reader::new(shared.clone()).unwrap().into_rev_prefix_iter(p.clone()).unwrap())
                    } else {
                        run_pair!(Reader::new(shared.clone()).unwrap().into_prefix_iter(p.clone()).unwrap())
                    }
                } else if rev {
                    run_iter!(Reader::new(mk_src(&file)).unwrap().into_rev_prefix_iter(p.clone()).unwrap(), clone_after)
                } else {
                    run_iter!(Reader::new(mk_src(&file)).unwrap().into_prefix_iter(p.clone()).unwrap(), clone_after)
                };
                let l = format!("q prefix {} {} = {}", hex(&p), if rev { "rev" } else { "fwd" }, res);
                h ^= fnv(l.as_bytes());
                c.line(&l);
                c.bump(if p.iter().all(|b| *b == 0xff) { "prefix.allff" } else { "prefix.other" }, 1);
            }
        }
        if es.len() >= 2 {
            c.nontrivial(&h.to_le_bytes());
        }
        c.bump("queries.total", per_file as u64);
        c.end();
    }
}

/// Small-scope exhaustive histories: EVERY sequence of `depth` operations over an alphabet of 21
/// operations (first, last, next, prev, reset, current, and the three seeks with five probes each) on
/// small files with one entry per data block.
pub fn generate_exhaustive<W: Write>(c: &mut Cases<W>, thorough: bool) {
    let probes: [Vec<u8>; 5] = [vec![], vec![0], vec![0, 1], vec![255], vec![255, 0]];
    let mut alphabet: Vec<Op> = vec![Op::First, Op::Last, Op::Next, Op::Prev, Op::Reset, Op::Current];
    for q in &probes {
        alphabet.push(Op::Ge(q.clone()));
        alphabet.push(Op::Le(q.clone()));
        alphabet.push(Op::Eq(q.clone()));
    }
    let es: Vec<(Vec<u8>, Vec<u8>)> = vec![(vec![], vec![1u8; 20]), (vec![0], vec![2u8; 20]), (vec![0, 255], vec![3u8; 20]), (vec![255], vec![4u8; 20])];
    let depth = if thorough { 4 } else { 3 };
    for levels in [0u8, 1] {
        let cfg = FileCfg { codec: CompressionType::None, level: 0, block_size: 16, unclamped: true, interval: Some(2), levels };
        let file = match write_file(&cfg, &es) {
            WriteOutcome::File(f) => f,
            _ => continue,
        };
        let n = alphabet.len();
        let total = n.pow(depth as u32);
        for code in 0..total {
            let mut x = code;
            let mut ops = Vec::new();
            for _ in 0..depth {
                ops.push((0usize, alphabet[x % n].clone()));
                x /= n;
            }
            // a final `current` makes the position reached observable
            ops.push((0usize, Op::Current));
            emit_hist(c, &cfg, &es, &file, &ops, true);
        }
    }
}

/// Small-scope exhaustive iterator queries: for EVERY subset of a 5-key universe, every pair of bounds
/// (unbounded / included / excluded x 6 probes = 13 bounds, 169 pairs) forward and reverse (C04), or
/// every prefix of a 9-prefix set forward and reverse (C05).
pub fn generate_iter_exhaustive<W: Write>(c: &mut Cases<W>, thorough: bool, which: &str) {
    let universe: [Vec<u8>; 5] = [vec![], vec![0], vec![0, 0], vec![0, 255], vec![255]];
    let probes: [Vec<u8>; 6] = [vec![], vec![0], vec![0, 0], vec![0, 1], vec![0, 255], vec![255]];
    let prefixes: [Vec<u8>; 9] = [vec![], vec![0], vec![0, 0], vec![0, 255], vec![255], vec![255, 255], vec![1], vec![0, 254], vec![0, 0, 0]];
    let mut bounds: Vec<Bound<Vec<u8>>> = vec![Bound::Unbounded];
    for q in &probes {
        bounds.push(Bound::Included(q.clone()));
        bounds.push(Bound::Excluded(q.clone()));
    }
    let level_set: &[u8] = if thorough { &[0, 1, 2] } else { &[1] };
    for &levels in level_set {
        let cfg = FileCfg { codec: CompressionType::None, level: 0, block_size: 16, unclamped: true, interval: Some(1), levels };
        for mask in 0u32..64 {
            // masks 32..63: the same key sets with empty values (the two-byte frame of ("", ""))
            let vlen = if mask >= 32 { 0 } else { 18 };
            let es: Vec<(Vec<u8>, Vec<u8>)> = (0..5).filter(|i| mask & (1 << i) != 0).map(|i| (universe[i].clone(), vec![i as u8; vlen])).collect();
            let file = match write_file(&cfg, &es) {
                WriteOutcome::File(f) => f,
                _ => continue,
            };
            c.begin("iter");
            c.line(&format!("prop {}", which));
            c.line(&cfg.line());
            c.line(&format!("file {}", hex(&file)));
            for (k, v) in &es {
                c.line(&format!("e {} {}", hex(k), hex(v)));
            }
            for rev in [false, true] {
                if which == "C04" {
                    for lo in &bounds {
                        for hi in &bounds {
                            let res = if rev {
                                let mut it = Reader::new(Cursor::new(&file[..])).unwrap().into_rev_range_iter((lo.clone(), hi.clone())).unwrap();
                                collect_iter(|| it.next().map(|o| o.map(|(k, v)| (k.to_vec(), v.to_vec()))).map_err(|e| err_class(&e)))
                            } else {
                                let mut it = Reader::new(Cursor::new(&file[..])).unwrap().into_range_iter((lo.clone(), hi.clone())).unwrap();
                                collect_iter(|| it.next().map(|o| o.map(|(k, v)| (k.to_vec(), v.to_vec()))).map_err(|e| err_class(&e)))
                            };
                            c.line(&format!("q range {} {} {} = {}", bound_str(lo), bound_str(hi), if rev { "rev" } else { "fwd" }, res));
                        }
                    }
                } else {
                    for p in &prefixes {
                        let res = if rev {
                            let mut it = Reader::new(Cursor::new(&file[..])).unwrap().into_rev_prefix_iter(p.clone()).unwrap();
                            collect_iter(|| it.next().map(|o| o.map(|(k, v)| (k.to_vec(), v.to_vec()))).map_err(|e| err_class(&e)))
                        } else {
                            let mut it = Reader::new(Cursor::new(&file[..])).unwrap().into_prefix_iter(p.clone()).unwrap();
                            collect_iter(|| it.next().map(|o| o.map(|(k, v)| (k.to_vec(), v.to_vec()))).map_err(|e| err_class(&e)))
                        };
                        c.line(&format!("q prefix {} {} = {}", hex(p), if rev { "rev" } else { "fwd" }, res));
                    }
                }
            }
            if es.len() >= 2 {
                c.nontrivial(&fnv(&file).to_le_bytes());
            }
            c.end();
        }
    }
}
