(* C16, byte level: what a block load and the open of a version-1 file consult.
   - a block load at offset off depends only on the frame that starts there (its 8-byte length and that many
     bytes): the files may differ arbitrarily before and after it;
   - opening a file whose last four bytes are the version-1 magic depends only on its last 21 bytes. *)
From Coq Require Import Lia ZArith ZifyN ZifyBool ZifyNat.
From Grenad.gen Require Import Consts.
From Grenad.model Require Import Base Block Trailer Reader.
From Grenad.proofs Require Import BaseProofs TrailerProofs SpecProofs.
Ltac Zify.zify_post_hook ::= Z.div_mod_to_equations.

(* the frame at [len pre]: the header h (8 bytes, big-endian length) and the body b of that length *)
Lemma load_block_frame dec codec ord pre pre' h b post post' :
  len pre = len pre' -> len h = 8 -> len b = be_decode h ->
  load_block dec (pre ++ h ++ b ++ post) codec ord (len pre) = load_block dec (pre' ++ h ++ b ++ post') codec ord (len pre).
Proof.
  intros Hp Hh Hb. unfold load_block. rewrite (skipnN_app pre). rewrite Hp. rewrite (skipnN_app pre'). rewrite !len_app.
  destruct (N.ltb_spec (len h + (len b + len post)) 8); [lia|]. destruct (N.ltb_spec (len h + (len b + len post')) 8); [lia|].
  rewrite <- Hh. rewrite !firstnN_app, !skipnN_app. rewrite <- Hb. rewrite !firstnN_app. reflexivity.
Qed.

(* and what it returns is the parse of the decompressed body *)
Lemma load_block_frame_value dec codec ord pre h b post :
  len h = 8 -> len b = be_decode h ->
  load_block dec (pre ++ h ++ b ++ post) codec ord (len pre) = bind (dec codec b) parse_block.
Proof.
  intros Hh Hb. unfold load_block. rewrite !skipnN_app, !len_app.
  destruct (N.ltb_spec (len h + (len b + len post)) 8); [lia|].
  rewrite <- Hh. rewrite !firstnN_app, !skipnN_app. rewrite <- Hb. rewrite !firstnN_app. reflexivity.
Qed.

(* a version-1 file: open depends only on the last 21 bytes *)
Lemma open_meta_v1_suffix pre f : 21 <= len f ->
  le_decode (firstnN 4 (skipnN (len f - 4) f)) = MAGIC_V1 ->
  open_meta (pre ++ f) = open_meta f.
Proof.
  intros H21 Hm. unfold open_meta, seek_end. rewrite !len_app.
  change (METADATA_V1_SIZE + 4) with 21.
  destruct (N.ltb_spec (len pre + len f) 4); [lia|]. destruct (N.ltb_spec (len f) 4); [lia|]. cbn [bind].
  replace (len pre + len f - 4) with (len pre + (len f - 4)) by lia.
  rewrite read_exact_shift by lia. rewrite (read_ok f (len f - 4) 4) by lia. cbn [omap bind fst snd].
  rewrite Hm. rewrite N.eqb_refl.
  destruct (N.ltb_spec (len pre + len f) 21); [lia|]. destruct (N.ltb_spec (len f) 21); [lia|]. cbn [bind].
  replace (len pre + len f - 21) with (len pre + (len f - 21)) by lia.
  rewrite read_exact_shift by lia. rewrite (read_ok f (len f - 21) 8) by lia. cbn [omap bind fst snd].
  rewrite read_exact_shift by lia. rewrite (read_ok f (len f - 21 + 8) 1) by lia. cbn [omap bind fst snd].
  destruct (codec_known _); [|reflexivity].
  rewrite read_exact_shift by lia. rewrite (read_ok f (len f - 21 + 8 + 1) 8) by lia. cbn [omap bind fst snd]. reflexivity.
Qed.
