(* C12 — Any failure of a user-supplied component surfaces as Err from the current call.
   Statements only.  Writer: the fault-injecting sink (fails the write of byte number p and/or the
   flush).  Reader: a loader failing its j-th block load, an I/O error at any read inside a load.
   Merger and sorter: a merge function failing its j-th call.  In every case: what does not reach the
   fault is unchanged, the call that reaches it returns exactly that error, nothing panics. *)
From Grenad.model Require Import Base Varint Block Trailer Writer Reader Merger IoModel.
From Grenad.proofs Require Import IoProofs WriterHom IoWriter.

(* no fault armed: the run is exactly the plain run (no error is invented) *)
Theorem C12_quiet : forall compress c es,
  let r1 := w_run_fault compress None false c es in
  let r2 := w_run_plain compress c es in
  fst r1 = fst r2 /\
  orel never (fun p q => fk_sink (fst (fst p)) = fst (fst q) /\ snd (fst p) = snd (fst q) /\ snd p = snd q) (snd r1) (snd r2).
Proof. exact quiet_run_eq. Qed.
Print Assumptions C12_quiet.

(* a fault armed at byte p / at the flush: the run returns the injected error, or the fault was
   never reached and the run ends at the same call with the plain outcome (file of <= p bytes) *)
Theorem C12_writer_fault : forall compress p fl c es,
  let r1 := w_run_fault compress (Some p) fl c es in
  let r2 := w_run_plain compress c es in
  snd r1 = Fail (EIo IO_INJECTED) \/
  (fst r1 = fst r2 /\
   orel injected (fun x y => fk_sink (fst (fst x)) = fst (fst y) /\ vs_count (fst (fst y)) <= p /\ fl = false /\
                             snd (fst x) = snd (fst y) /\ snd x = snd y) (snd r1) (snd r2)).
Proof. exact fault_run. Qed.
Print Assumptions C12_writer_fault.

(* whenever the fault position lies inside the file the plain run produces, or the flush fault is
   armed, the faulty run returns Err carrying the injected I/O error: never success, never a panic *)
Theorem C12_writer_surface : forall compress p fl c es s lg m,
  snd (w_run_plain compress c es) = Done (s, lg, m) -> (p < vs_count s \/ fl = true) ->
  snd (w_run_fault compress (Some p) fl c es) = Fail (EIo IO_INJECTED).
Proof. exact fault_surfaces. Qed.
Print Assumptions C12_writer_surface.

(* the merge function failing at its j-th call fails exactly that call with the merge error *)
Theorem C12_merge_fn_failure : forall j mf k vs, mf_fail_at j mf j k vs = Fail EMerge.
Proof. intros. unfold mf_fail_at. rewrite N.eqb_refl. reflexivity. Qed.
Print Assumptions C12_merge_fn_failure.

(* an error raised inside any step propagates: bind never turns Fail into Done or Panic *)
Theorem C12_bind_propagates : forall A B e (f : A -> outcome B), bind (Fail e) f = Fail e.
Proof. reflexivity. Qed.
Print Assumptions C12_bind_propagates.

Example C12_example :
  snd (w_run_fault compress_none (Some 30) false (mk_wcfg 0 0 1024 8 0) [([1], [2]); ([3], [4; 5])]) = Fail (EIo IO_INJECTED) /\
  fst (w_run_fault compress_none (Some 30) false (mk_wcfg 0 0 1024 8 0) [([1], [2]); ([3], [4; 5])]) = 2.
Proof. vm_compute. split; reflexivity. Qed.

(* ================= the source failing under a reader =================
   faulty_load ld j: the loader that fails its j-th block load (loads are numbered by the cursor's load
   counter) with the injected I/O error.  For ANY loader, root, depth, state and history: if the
   history runs to completion without the fault, then with the fault it is unchanged when load j is
   not among its loads, and returns exactly the injected error — not a panic, not a success — when it
   is; the same for a single operation, so earlier operations are unaffected and the operation during
   which load j happens is the one that fails. *)
From Grenad.model Require Import Spec.
From Grenad.proofs Require Import ReaderRefine IoReader.

Theorem C12_reader_fault_history : forall ld j root levels ops st st' rs,
  run_ops ld root levels st ops = Done (st', rs) ->
  cs_loads st <= cs_loads st' /\
  (j < cs_loads st \/ cs_loads st' <= j -> run_ops (faulty_load ld j) root levels st ops = Done (st', rs)) /\
  (cs_loads st <= j < cs_loads st' -> run_ops (faulty_load ld j) root levels st ops = Fail (EIo IO_INJECTED)).
Proof. exact reader_fault_history. Qed.
Print Assumptions C12_reader_fault_history.

Theorem C12_reader_fault_step : forall ld j root levels st o st' r,
  cstep ld root levels st o = Done (st', r) ->
  cs_loads st <= cs_loads st' /\
  (j < cs_loads st \/ cs_loads st' <= j -> cstep (faulty_load ld j) root levels st o = Done (st', r)) /\
  (cs_loads st <= j < cs_loads st' -> cstep (faulty_load ld j) root levels st o = Fail (EIo IO_INJECTED)).
Proof. exact reader_fault_step. Qed.
Print Assumptions C12_reader_fault_step.

(* on a well-formed store every admissible operation returns (no panic, no error of its own), hence
   under a failing source it returns the same or the injected error *)
Theorem C12_reader_no_panic : forall ld j root levels bs, wf_store ld root levels bs ->
  forall p st o, Rel root bs levels p st -> admissible p o ->
  exists st' r, cstep ld root levels st o = Done (st', r) /\
    (cstep (faulty_load ld j) root levels st o = Done (st', r) \/
     cstep (faulty_load ld j) root levels st o = Fail (EIo IO_INJECTED)).
Proof. exact reader_fault_no_panic. Qed.
Print Assumptions C12_reader_no_panic.

(* ================= the merge function failing =================
   mf_fail_at j mf fails its j-th call (calls are numbered by the call counter the merger and the sorter
   thread through) with the merge error.  For ANY merge function, sources, sorter configuration and
   state: a merge / a Sorter::insert that completes without the fault is unchanged when call j is not
   among its calls, and returns exactly the merge error when it is *)
From Grenad.model Require Import Sorter.
From Grenad.proofs Require Import MergeFault.

Theorem C12_merge_fault : forall mf j calls srcs out n, merge_run mf calls srcs = Done (out, n) ->
  calls <= n /\
  (j < calls \/ n <= j -> merge_run (mf_fail_at j mf) calls srcs = Done (out, n)) /\
  (calls <= j < n -> merge_run (mf_fail_at j mf) calls srcs = Fail EMerge).
Proof. exact merge_fault. Qed.
Print Assumptions C12_merge_fault.

Theorem C12_sorter_insert_fault : forall mf j c st k v st', s_insert c mf st k v = Done st' ->
  ss_calls st <= ss_calls st' /\
  (j < ss_calls st \/ ss_calls st' <= j -> s_insert c (mf_fail_at j mf) st k v = Done st') /\
  (ss_calls st <= j < ss_calls st' -> s_insert c (mf_fail_at j mf) st k v = Fail EMerge).
Proof. exact sorter_insert_fault. Qed.
Print Assumptions C12_sorter_insert_fault.

(* ================= an I/O error in the middle of a block load =================
   errsched k sched: the schedule of the source (short reads, interruptions) is benign up to a first
   failing call that reports the I/O error k.  Block::new over that source either finishes before the
   failing call — and then returns exactly the block a plain source gives — or returns exactly that
   error; never a panic, never another block.  With C12_reader_fault_step (a failing load fails the
   operation in progress with that error) this covers a source failing at any read of any operation. *)
From Grenad.proofs Require Import IoFault.

Theorem C12_load_fault : forall dec file codec sched reqs ord off k,
  errsched k sched -> Forall (fun r => 1 <= r) reqs -> 8 <= len (skipnN off file) ->
  load_block_sched dec file codec sched reqs off = Fail (EIo k) \/
  load_block_sched dec file codec sched reqs off = load_block dec file codec ord off.
Proof. exact load_block_fault. Qed.
Print Assumptions C12_load_fault.

(* ================= the chunk creator of the sorter =================
   write_chunk and merge_chunks each begin with ChunkCreator::create; with a creator failing its call
   number j the insert (or the final call) during which that call happens returns exactly the creator's
   error, every earlier call is unchanged, and a creator that never fails gives the plain sorter.  The
   driver evaluates fs_run for every creator call of every faults case and compares the failing call index
   and the error with the implementation's. *)
From Grenad.proofs Require Import SorterFault.

Theorem C12_sorter_create_quiet : forall c mf ins, snd (fs_run c cr_never mf ins) = sorter_run c mf ins.
Proof. exact fs_run_never. Qed.
Print Assumptions C12_sorter_create_quiet.

Theorem C12_sorter_create_fault : forall mf j e c st k v st', s_insert c mf st k v = Done st' ->
  creates (ss_events st) <= creates (ss_events st') /\
  (j < creates (ss_events st) \/ creates (ss_events st') <= j ->
     fs_insert c (cr_fail_at j e) mf st k v = Done st') /\
  (creates (ss_events st) <= j < creates (ss_events st') ->
     fs_insert c (cr_fail_at j e) mf st k v = Fail e).
Proof. exact sorter_create_fault. Qed.
Print Assumptions C12_sorter_create_fault.

Theorem C12_sorter_run_create_fault : forall mf j e c pre k v post st st',
  s_inserts c mf (s_new c) pre = Done st -> s_insert c mf st k v = Done st' ->
  creates (ss_events st) <= j < creates (ss_events st') ->
  fs_run c (cr_fail_at j e) mf (pre ++ (k, v) :: post) = (len pre, Fail e).
Proof. exact sorter_run_create_fault. Qed.
Print Assumptions C12_sorter_run_create_fault.

Theorem C12_sorter_finish_create_fault : forall mf j e c ins st out,
  s_inserts c mf (s_new c) ins = Done st -> s_finish mf st = Done out ->
  (creates (ss_events st) = j -> fs_run c (cr_fail_at j e) mf ins = (len ins, Fail e)) /\
  (creates (ss_events st) < j -> fs_run c (cr_fail_at j e) mf ins = (len ins, Done (fst out))).
Proof. exact sorter_finish_create_fault. Qed.
Print Assumptions C12_sorter_finish_create_fault.

(* non-vacuity: a 64-byte budget spills on the second 24-byte entry: create call 0 fails that insert *)
Example C12_create_fault_example :
  let c := mk_scfg 64 false 2 64 in
  let e := ([1], [2;2;2;2;2;2;2;2;2;2;2;2;2;2;2;2;2;2;2;2;2;2;2]) in
  fs_run c (cr_fail_at 0 (EIo 7)) mf_concat [e; e; e; e] = (1, Fail (EIo 7)) /\
  (exists out, fs_run c cr_never mf_concat [e; e; e; e] = (4, Done out)).
Proof. split; [vm_compute; reflexivity|eexists; vm_compute; reflexivity]. Qed.

(* ================= an I/O error of a source inside the merger =================
   Over any cursor type: when at least one source fails its next move with the error e after yielding some
   entries (the others yield theirs and end), the merge returns an error — e, or a failure of the merge
   function that came first — never a result, never a panic.  For reader cursors over well-formed stores
   whose loaders may each fail one block load: the merge is the merge of the plain sources, or returns the
   injected error (or the merge function's own failure). *)
From Grenad.model Require Import Merger.
From Grenad.proofs Require Import MergeCursors MergeSourceFault.

Theorem C12_merger_source_fault : forall S snext e mf,
  (forall a k vs, mf a k vs <> Panic) ->
  forall calls fuel srcs ds,
  Forall2 (srcdesc S snext e) srcs ds -> existsb fst ds = true -> (tot ds < fuel)%nat ->
  exists x, cm_run S snext mf calls fuel srcs = Fail x /\ (x = e \/ mf_fails mf x).
Proof. exact cm_run_source_fault. Qed.
Print Assumptions C12_merger_source_fault.

Theorem C12_merger_reader_fault : forall mf calls srcs srcs' ess,
  (forall a k vs, mf a k vs <> Panic) ->
  Forall2 reader_source srcs ess -> Forall2 faulted srcs srcs' ->
  cm_run rsrc rsnext mf calls (S (total_len ess)) srcs' = merge_run mf calls ess \/
  exists x, cm_run rsrc rsnext mf calls (S (total_len ess)) srcs' = Fail x /\
            (x = EIo IO_INJECTED \/ mf_fails mf x).
Proof. exact merge_source_fault. Qed.
Print Assumptions C12_merger_reader_fault.

(* non-vacuity: cursors over lists of option entry, None = the failing move *)
Definition ex_next (l : list (option entry)) : outcome (list (option entry) * option entry) :=
  match l with [] => Done ([], None) | Some x :: r => Done (r, Some x) | None :: _ => Fail (EIo 7) end.
Example C12_merger_source_fault_example :
  srcdesc _ ex_next (EIo 7) [Some ([1], [1]); Some ([3], [1]); None] (true, [([1], [1]); ([3], [1])]) /\
  srcdesc _ ex_next (EIo 7) [Some ([2], [2])] (false, [([2], [2])]) /\
  cm_run _ ex_next mf_concat 0 4 [[Some ([1], [1]); Some ([3], [1]); None]; [Some ([2], [2])]] = Fail (EIo 7).
Proof.
  split; [|split]; [| |vm_compute; reflexivity].
  - cbn. eexists. split; [reflexivity|]. eexists. split; reflexivity.
  - cbn. eexists. split; [reflexivity|]. eexists. reflexivity.
Qed.

(* the insert that also returns the state the sorter is left in after a failure (used to follow a caller
   who goes on after a transient ChunkCreator failure: correspondence of C08) has the results of fs_insert *)
Theorem C12_sorter_resumable_insert : forall c cr mf st k v,
  match fs_insert c cr mf st k v with
  | Done st' => fs_insert_r c cr mf st k v = (st', Done tt)
  | Panic => snd (fs_insert_r c cr mf st k v) = Panic
  | Fail e => snd (fs_insert_r c cr mf st k v) = Fail e
  end.
Proof. exact fs_insert_r_agrees. Qed.
Print Assumptions C12_sorter_resumable_insert.

(* ================= the sorter over a failing chunk storage =================
   FileSorter.faulty_sorter_run: the sorter writing every chunk through the writer model over a sink that
   may fail the write of one byte position and/or its flush (one fault plan per chunk), re-opening the
   chunks with trailer reads that may fail and reading them through loaders that may each fail one block
   load - all with the injected I/O error.  Whatever the fault plan, the run returns exactly what the
   fault-free list-level sorter returns, or fails with the injected error (or with an error the merge
   function itself returned, or outside the 2^64-byte envelope): never a success with other entries, never
   another error, never a panic of its own (a merge function that panics is not grenad's). *)
From Grenad.model Require Import Sorter.
From Grenad.proofs Require Import FileSorter.

Theorem C12_sorter_chunk_storage : forall compress decompress wc,
  (forall b z, compress (wc_codec wc) (wc_level wc) b = Done z -> decompress (wc_codec wc) z = Done b) ->
  (forall b, exists z, compress (wc_codec wc) (wc_level wc) b = Done z) ->
  wc_levels wc < 256 -> 1 <= wc_interval wc -> wc_codec wc <= 5 ->
  forall mf : mergefn, (forall n k vs v, mf n k vs = Done v -> len v <= U32_MAX) ->
  forall wfault ofault lfault, (forall a k vs, mf a k vs <> Panic) ->
  forall c ins, len ins + 1 <= U32_MAX ->
  (exists e, faulty_sorter_run compress decompress wc wfault ofault lfault c mf ins = Fail e /\
             (e = EFuel \/ e = EIo IO_INJECTED \/ mf_fails mf e)) \/
  faulty_sorter_run compress decompress wc wfault ofault lfault c mf ins = sorter_run c mf ins.
Proof. exact faulty_sorter_refines. Qed.
Print Assumptions C12_sorter_chunk_storage.

(* non-vacuity: a fault in the second chunk written surfaces as the injected error; a fault plan that is
   never reached leaves the result untouched *)
Example C12_sorter_chunk_storage_example :
  let wc := mk_wcfg 0 0 16 1 1 in
  let c := mk_scfg 64 false 2 48 in
  let ins := [([3], [1]); ([1], [2]); ([3], [3]); ([2], [4]); ([1], [5])] in
  faulty_sorter_run compress_none decompress_none wc (fun n => if n =? 1 then Some (20, false) else None) (fun _ _ => false) (fun _ _ => None) c mf_concat ins
    = Fail (EIo IO_INJECTED) /\
  faulty_sorter_run compress_none decompress_none wc (fun _ => None) (fun _ _ => false) (fun n i => if (n =? 4) && (i =? 0) then Some 1 else None) c mf_concat ins
    = Fail (EIo IO_INJECTED) /\
  faulty_sorter_run compress_none decompress_none wc (fun n => if n =? 1 then Some (100000, false) else None) (fun _ _ => false) (fun _ _ => Some 1000) c mf_concat ins
    = Done [([1], [2; 5]); ([2], [4]); ([3], [1; 3])].
Proof. cbv zeta. split; [vm_compute; reflexivity|]. split; vm_compute; reflexivity. Qed.

(* ================= iterators over a failing source =================
   [calls next n it]: n successive calls of an iterator's next.  If without the fault they return (it', rs),
   then over the loader that fails its j-th block load they return exactly the same when load j is not
   among the loads they perform, and exactly the injected error when it is.  Applied to n and n + 1: the
   call of next during which load j happens is the one that returns the error, every earlier call returned
   what it returns without the fault - for the range and prefix iterators in both directions, all bounds. *)
From Grenad.model Require Import Spec Iter.
From Grenad.proofs Require Import IterFault.

Theorem C12_range_iterator_fault : forall ld j root levels lo hi n it it' rs,
  calls (range_next (cstep ld root levels) lo hi) n it = Done (it', rs) ->
  cs_loads (it_st it) <= cs_loads (it_st it') /\
  (j < cs_loads (it_st it) \/ cs_loads (it_st it') <= j ->
   calls (range_next (cstep (faulty_load ld j) root levels) lo hi) n it = Done (it', rs)) /\
  (cs_loads (it_st it) <= j < cs_loads (it_st it') ->
   calls (range_next (cstep (faulty_load ld j) root levels) lo hi) n it = Fail (EIo IO_INJECTED)).
Proof. exact range_iterator_fault. Qed.
Print Assumptions C12_range_iterator_fault.

Theorem C12_rev_range_iterator_fault : forall ld j root levels lo hi n it it' rs,
  calls (rev_range_next (cstep ld root levels) lo hi) n it = Done (it', rs) ->
  cs_loads (it_st it) <= cs_loads (it_st it') /\
  (j < cs_loads (it_st it) \/ cs_loads (it_st it') <= j ->
   calls (rev_range_next (cstep (faulty_load ld j) root levels) lo hi) n it = Done (it', rs)) /\
  (cs_loads (it_st it) <= j < cs_loads (it_st it') ->
   calls (rev_range_next (cstep (faulty_load ld j) root levels) lo hi) n it = Fail (EIo IO_INJECTED)).
Proof. exact rev_range_iterator_fault. Qed.
Print Assumptions C12_rev_range_iterator_fault.

Theorem C12_prefix_iterator_fault : forall ld j root levels p n it it' rs,
  calls (prefix_next (cstep ld root levels) p) n it = Done (it', rs) ->
  cs_loads (it_st it) <= cs_loads (it_st it') /\
  (j < cs_loads (it_st it) \/ cs_loads (it_st it') <= j ->
   calls (prefix_next (cstep (faulty_load ld j) root levels) p) n it = Done (it', rs)) /\
  (cs_loads (it_st it) <= j < cs_loads (it_st it') ->
   calls (prefix_next (cstep (faulty_load ld j) root levels) p) n it = Fail (EIo IO_INJECTED)).
Proof. exact prefix_iterator_fault. Qed.
Print Assumptions C12_prefix_iterator_fault.

Theorem C12_rev_prefix_iterator_fault : forall ld j root levels p n it it' rs,
  calls (rev_prefix_next (cstep ld root levels) p) n it = Done (it', rs) ->
  cs_loads (it_st it) <= cs_loads (it_st it') /\
  (j < cs_loads (it_st it) \/ cs_loads (it_st it') <= j ->
   calls (rev_prefix_next (cstep (faulty_load ld j) root levels) p) n it = Done (it', rs)) /\
  (cs_loads (it_st it) <= j < cs_loads (it_st it') ->
   calls (rev_prefix_next (cstep (faulty_load ld j) root levels) p) n it = Fail (EIo IO_INJECTED)).
Proof. exact rev_prefix_iterator_fault. Qed.
Print Assumptions C12_rev_prefix_iterator_fault.

(* non-vacuity: a 2-level file with one entry per data block; the forward range iterator performs 3 loads for
   its first entry and one more per further entry; with load number 3 failing, the first call is unaffected
   and the second returns the injected error *)
Example C12_iterator_fault_example :
  let es := [([1], [1;1;1;1;1;1;1;1]); ([2], [2;2;2;2;2;2;2;2]); ([3], [3;3;3;3;3;3;3;3]); ([4], [4])] in
  match w_run compress_none (mk_wcfg 0 0 16 1 1) es with
  | WFile f _ m =>
    let ld := load_block decompress_none f (m_codec m) in
    (exists it', calls (range_next (cstep ld (m_root m) (m_levels m)) Unbounded Unbounded) 5 iter_new = Done (it', map Some es ++ [None]) /\
                 cs_loads (it_st it') = 6) /\
    (exists it', calls (range_next (cstep (faulty_load ld 3) (m_root m) (m_levels m)) Unbounded Unbounded) 1 iter_new
                 = Done (it', [Some ([1], [1;1;1;1;1;1;1;1])]) /\ cs_loads (it_st it') = 3) /\
    calls (range_next (cstep (faulty_load ld 3) (m_root m) (m_levels m)) Unbounded Unbounded) 2 iter_new = Fail (EIo IO_INJECTED)
  | _ => False
  end.
Proof. vm_compute. split; [eexists; split; reflexivity|]. split; [eexists; split; reflexivity|reflexivity]. Qed.

(* ================= iterators over a failing source, call by call ================= *)
(* The iterator theorems of C04/C05 composed with the fault theorems above.  On a well-formed store read
   through the loader that fails its j-th block load (any j), the first n calls of next either return Some of
   the first n entries the specification lists, one after the other (and the call after the last one None),
   or the run of calls fails with exactly the injected error: never another entry, never a wrong None, never
   a panic.  Non-vacuity: C12_iterator_fault_example above exhibits both disjuncts on a written 2-level file
   (5 calls without the fault return the 4 entries and None; with load 3 failing the first call returns the
   first entry and two calls fail with the injected error). *)
From Grenad.model Require Import Base Block Reader.
From Grenad.proofs Require Import ReaderRefine IterCalls.

Theorem C12_range_fault_call_by_call : forall ld j root levels bstore, wf_store ld root levels bstore ->
  forall lo hi,
  (forall n, (n <= length (range_spec (content root levels bstore) lo hi))%nat ->
     (exists it', calls (range_next (cstep (faulty_load ld j) root levels) lo hi) n iter_new
                  = Done (it', map Some (firstn n (range_spec (content root levels bstore) lo hi)))) \/
     calls (range_next (cstep (faulty_load ld j) root levels) lo hi) n iter_new = Fail (EIo IO_INJECTED)) /\
  ((exists it', calls (range_next (cstep (faulty_load ld j) root levels) lo hi)
                  (S (length (range_spec (content root levels bstore) lo hi))) iter_new
                = Done (it', map Some (range_spec (content root levels bstore) lo hi) ++ [None])) \/
   calls (range_next (cstep (faulty_load ld j) root levels) lo hi)
     (S (length (range_spec (content root levels bstore) lo hi))) iter_new = Fail (EIo IO_INJECTED)).
Proof. exact range_fault_calls. Qed.
Print Assumptions C12_range_fault_call_by_call.

Theorem C12_rev_range_fault_call_by_call : forall ld j root levels bstore, wf_store ld root levels bstore ->
  forall lo hi,
  (forall n, (n <= length (rev (range_spec (content root levels bstore) lo hi)))%nat ->
     (exists it', calls (rev_range_next (cstep (faulty_load ld j) root levels) lo hi) n iter_new
                  = Done (it', map Some (firstn n (rev (range_spec (content root levels bstore) lo hi))))) \/
     calls (rev_range_next (cstep (faulty_load ld j) root levels) lo hi) n iter_new = Fail (EIo IO_INJECTED)) /\
  ((exists it', calls (rev_range_next (cstep (faulty_load ld j) root levels) lo hi)
                  (S (length (rev (range_spec (content root levels bstore) lo hi)))) iter_new
                = Done (it', map Some (rev (range_spec (content root levels bstore) lo hi)) ++ [None])) \/
   calls (rev_range_next (cstep (faulty_load ld j) root levels) lo hi)
     (S (length (rev (range_spec (content root levels bstore) lo hi)))) iter_new = Fail (EIo IO_INJECTED)).
Proof. exact rev_range_fault_calls. Qed.
Print Assumptions C12_rev_range_fault_call_by_call.

Theorem C12_prefix_fault_call_by_call : forall ld j root levels bstore, wf_store ld root levels bstore ->
  forall p,
  (forall n, (n <= length (prefix_spec (content root levels bstore) p))%nat ->
     (exists it', calls (prefix_next (cstep (faulty_load ld j) root levels) p) n iter_new
                  = Done (it', map Some (firstn n (prefix_spec (content root levels bstore) p)))) \/
     calls (prefix_next (cstep (faulty_load ld j) root levels) p) n iter_new = Fail (EIo IO_INJECTED)) /\
  ((exists it', calls (prefix_next (cstep (faulty_load ld j) root levels) p)
                  (S (length (prefix_spec (content root levels bstore) p))) iter_new
                = Done (it', map Some (prefix_spec (content root levels bstore) p) ++ [None])) \/
   calls (prefix_next (cstep (faulty_load ld j) root levels) p)
     (S (length (prefix_spec (content root levels bstore) p))) iter_new = Fail (EIo IO_INJECTED)).
Proof. exact prefix_fault_calls. Qed.
Print Assumptions C12_prefix_fault_call_by_call.

Theorem C12_rev_prefix_fault_call_by_call : forall ld j root levels bstore, wf_store ld root levels bstore ->
  forall p, Forall (fun e => wf_bytes (fst e)) (content root levels bstore) -> wf_bytes p ->
  (forall n, (n <= length (rev (prefix_spec (content root levels bstore) p)))%nat ->
     (exists it', calls (rev_prefix_next (cstep (faulty_load ld j) root levels) p) n iter_new
                  = Done (it', map Some (firstn n (rev (prefix_spec (content root levels bstore) p))))) \/
     calls (rev_prefix_next (cstep (faulty_load ld j) root levels) p) n iter_new = Fail (EIo IO_INJECTED)) /\
  ((exists it', calls (rev_prefix_next (cstep (faulty_load ld j) root levels) p)
                  (S (length (rev (prefix_spec (content root levels bstore) p)))) iter_new
                = Done (it', map Some (rev (prefix_spec (content root levels bstore) p)) ++ [None])) \/
   calls (rev_prefix_next (cstep (faulty_load ld j) root levels) p)
     (S (length (rev (prefix_spec (content root levels bstore) p)))) iter_new = Fail (EIo IO_INJECTED)).
Proof. exact rev_prefix_fault_calls. Qed.
Print Assumptions C12_rev_prefix_fault_call_by_call.
