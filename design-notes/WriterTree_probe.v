From Coq Require Import List Arith Lia Bool.
Import ListNotations.

(* Probe for the writer backbone (W): abstract Writer::insert / into_inner over blocks = item lists,
   file offsets = index of the emitted block, cut decision = arbitrary oracle.  Shows that whatever
   the cut policy, the emitted blocks form a tree of uniform depth whose leaves concatenate to the
   inserted entries and whose index items carry the last key of the child they point to.
   Includes the quirk that level 1 and the root are never cut during inserts. *)
Section W.
Notation item := (nat * nat)%type (only parsing).   (* (key, value-or-child-offset) *)
Notation block := (list (nat * nat)) (only parsing).
Variable full : block -> bool.                 (* current_size_estimate() >= block_size *)

Definition lastkey (b : block) : nat := fst (last b (0, 0)).
Definition load (st : list block) (o : nat) : block := nth o st [].

(* deepest level first: [level L; ...; level 1; root] *)
Record w := { data : block; idx : list block; store : list block }.

Definition push_item (k off : nat) (l : list block) : list block :=
  match l with [] => [] | cur :: up => (cur ++ [(k, off)]) :: up end.

(* the cascade of Writer::insert: only levels that have a parent *inside* index_block_writers[1..],
   i.e. at least two more blocks after them in this deepest-first list *)
Fixpoint cascade_from (st : list block) (cur : block) (up : list block) : list block * list block :=
  match up with
  | par :: ((_ :: _) as rest) =>
      if full cur && negb (match cur with [] => true | _ => false end)
      then let (st', l') := cascade_from (st ++ [cur]) (par ++ [(lastkey cur, length st)]) rest in (st', [] :: l')
      else let (st', l') := cascade_from st par rest in (st', cur :: l')
  | _ => (st, cur :: up)
  end.
Definition cascade (st : list block) (l : list block) : list block * list block :=
  match l with [] => (st, []) | cur :: up => cascade_from st cur up end.

Definition cut_data (s : w) : w :=
  {| data := []; idx := push_item (lastkey (data s)) (length (store s)) (idx s); store := store s ++ [data s] |}.

Definition insert (s : w) (e : item) : w :=
  let s1 := {| data := data s ++ [e]; idx := idx s; store := store s |} in
  if full (data s1) then
    let s2 := cut_data s1 in
    let (st', idx') := cascade (store s2) (idx s2) in {| data := []; idx := idx'; store := st' |}
  else s1.

(* finish: flush data, then every level bottom-up; returns (store, root offset) *)
Fixpoint flush_from (st : list block) (cur : block) (up : list block) : list block * nat :=
  match up with
  | [] => (st ++ [cur], length st)                    (* the root is always written, empty or not *)
  | par :: rest =>
      match cur with
      | [] => flush_from st par rest                  (* an empty non-root level is skipped *)
      | _ => flush_from (st ++ [cur]) (par ++ [(lastkey cur, length st)]) rest
      end
  end.
Definition finish (s : w) : list block * nat :=
  let s1 := match data s with [] => s | _ => cut_data s end in
  match idx s1 with [] => (store s1, 0) | cur :: up => flush_from (store s1) cur up end.

Definition init (levels : nat) : w := {| data := []; idx := repeat [] (S levels); store := [] |}.

(* ---- what a block at height n above the data covers ---- *)
Fixpoint under (st : list block) (n : nat) (o : nat) : block :=
  match n with O => load st o | S n' => flat_map (fun it => under st n' (snd it)) (load st o) end.

(* good st n it: item it may sit in a block of height n+1; it points to an emitted non-empty block of height n
   whose last key it carries, recursively *)
Fixpoint good (st : list block) (n : nat) (it : item) : Prop :=
  snd it < length st /\ load st (snd it) <> [] /\ fst it = lastkey (load st (snd it)) /\
  match n with O => True | S n' => Forall (good st n') (load st (snd it)) end.

Lemma load_app st x o : o < length st -> load (st ++ x) o = load st o.
Proof. intro H. unfold load. apply app_nth1. exact H. Qed.
Lemma load_new st b : load (st ++ [b]) (length st) = b.
Proof. unfold load. rewrite app_nth2 by lia. rewrite Nat.sub_diag. reflexivity. Qed.

Lemma good_app st x n : forall it, good st n it -> good (st ++ x) n it.
Proof.
  induction n as [|n IH]; intros it (A & B & C & D); cbn [good]; rewrite app_length, load_app by exact A;
  repeat split; auto; try lia.
  eapply Forall_impl; [|exact D]. exact IH.
Qed.

Lemma under_app st x n : forall it, good st n it -> under (st ++ x) n (snd it) = under st n (snd it).
Proof.
  induction n as [|n IH]; intros it (A & B & C & D); cbn [under]; rewrite load_app by exact A; [reflexivity|].
  clear B C. induction D as [|a l Ha Hl IHl]; [reflexivity|]. cbn. rewrite (IH a Ha). f_equal. exact IHl.
Qed.

(* entries covered by a pending block at position p (its items point to blocks of height p) *)
Definition cov (st : list block) (p : nat) (b : block) : block := flat_map (fun it => under st p (snd it)) b.
Fixpoint covered (st : list block) (p : nat) (l : list block) : block :=
  match l with [] => [] | cur :: up => covered st (S p) up ++ cov st p cur end.
Fixpoint pend_ok (st : list block) (p : nat) (l : list block) : Prop :=
  match l with [] => True | cur :: up => Forall (good st p) cur /\ pend_ok st (S p) up end.

Lemma cov_app_store st x p b : Forall (good st p) b -> cov (st ++ x) p b = cov st p b.
Proof.
  unfold cov. induction 1 as [|a l Ha Hl IH]; [reflexivity|]. cbn. rewrite (under_app st x p a Ha). f_equal. exact IH.
Qed.
Lemma covered_app_store st x : forall l p, pend_ok st p l -> covered (st ++ x) p l = covered st p l.
Proof.
  induction l as [|cur up IH]; intros p H; [reflexivity|]. destruct H as [A B]. cbn.
  rewrite (IH (S p) B), (cov_app_store st x p cur A). reflexivity.
Qed.
Lemma pend_ok_app_store st x : forall l p, pend_ok st p l -> pend_ok (st ++ x) p l.
Proof.
  induction l as [|cur up IH]; intros p H; [exact I|]. destruct H as [A B]. split; [|apply IH; exact B].
  eapply Forall_impl; [|exact A]. intros; apply good_app; assumption.
Qed.

(* emitting a non-empty block b of height p (its items good at p-1 ... here: block at list position p) *)
Lemma good_emit st p b : b <> [] -> Forall (good st p) b ->
  good (st ++ [b]) (S p) (lastkey b, length st) /\ under (st ++ [b]) (S p) (length st) = cov st p b.
Proof.
  intros Hb Hg. split.
  - cbn [good snd fst]. rewrite app_length, load_new. cbn [length]. repeat split; auto; try lia.
    eapply Forall_impl; [|exact Hg]. intros; apply good_app; assumption.
  - cbn [under]. rewrite load_new. apply (cov_app_store st [b] p b Hg).
Qed.

(* push into the parent: covered grows by exactly what the emitted child covers *)
Lemma covered_push st p l k off : l <> [] ->
  covered st p (push_item k off l) = covered st p l ++ under st p off.
Proof.
  destruct l as [|cur up]; [congruence|]. intros _. cbn. unfold cov. rewrite flat_map_app. cbn.
  rewrite app_nil_r, app_assoc. reflexivity.
Qed.
Lemma pend_ok_push st p l k off : pend_ok st p l -> good st p (k, off) -> pend_ok st p (push_item k off l).
Proof.
  destruct l as [|cur up]; [auto|]. intros [A B] G. split; [|exact B]. apply Forall_app. split; [exact A|]. constructor; [exact G|constructor].
Qed.

(* ---- cascade preserves coverage ---- *)
Lemma cascade_from_inv : forall up cur st p, pend_ok st p (cur :: up) ->
  let (st', l') := cascade_from st cur up in
  pend_ok st' p l' /\ covered st' p l' = covered st p (cur :: up) /\ length l' = S (length up) /\ (exists x, st' = st ++ x).
Proof.
  induction up as [|par rest IH]; intros cur st p H.
  - cbn [cascade_from]. split; [exact H|]. split; [reflexivity|]. split; [reflexivity|]. exists []; rewrite app_nil_r; reflexivity.
  - cbn [cascade_from]. destruct rest as [|gp rest'].
    + split; [exact H|]. split; [reflexivity|]. split; [reflexivity|]. exists []; rewrite app_nil_r; reflexivity.
    + destruct H as [Hcur Hup].
      destruct (full cur && negb match cur with [] => true | _ => false end) eqn:C.
      * apply andb_true_iff in C. destruct C as [_ C]. assert (Hne : cur <> []) by (destruct cur; [discriminate|congruence]).
        destruct (good_emit st p cur Hne Hcur) as [G U].
        assert (Hup' : pend_ok (st ++ [cur]) (S p) ((par ++ [(lastkey cur, length st)]) :: gp :: rest')).
        { apply (pend_ok_push _ _ (par :: gp :: rest')); [apply pend_ok_app_store; exact Hup|exact G]. }
        specialize (IH (par ++ [(lastkey cur, length st)]) (st ++ [cur]) (S p) Hup').
        destruct (cascade_from (st ++ [cur]) (par ++ [(lastkey cur, length st)]) (gp :: rest')) as [st' l'].
        destruct IH as (A & B & Cn & (x & ->)). split; [split; [constructor|exact A]|].
        split.
        -- cbn [covered]. unfold cov at 1. cbn [flat_map]. rewrite app_nil_r. cbn [covered] in B. rewrite B.
           pose proof (covered_push (st ++ [cur]) (S p) (par :: gp :: rest') (lastkey cur) (length st) ltac:(discriminate)) as CP.
           cbn [push_item covered] in CP. rewrite CP. rewrite U.
           pose proof (covered_app_store st [cur] _ (S p) Hup) as CA. cbn [covered] in CA. rewrite CA. reflexivity.
        -- split; [cbn [length] in *; lia|]. exists ([cur] ++ x). rewrite app_assoc. reflexivity.
      * specialize (IH par st (S p) Hup). destruct (cascade_from st par (gp :: rest')) as [st' l'].
        destruct IH as (A & B & Cn & (x & ->)). split; [split; [|exact A]|].
        -- eapply Forall_impl; [|exact Hcur]. intros; apply good_app; assumption.
        -- split; [cbn [covered]; cbn [covered] in B; rewrite B, (cov_app_store st x p cur Hcur); reflexivity|].
           split; [cbn [length] in *; lia|]. exists x; reflexivity.
Qed.

Lemma cascade_inv : forall l st p, pend_ok st p l ->
  let (st', l') := cascade st l in
  pend_ok st' p l' /\ covered st' p l' = covered st p l /\ length l' = length l /\ (exists x, st' = st ++ x).
Proof.
  intros [|cur up] st p H; [cbn; split; [exact I|]; split; [reflexivity|]; split; [reflexivity|]; exists []; rewrite app_nil_r; reflexivity|].
  apply cascade_from_inv. exact H.
Qed.

(* ---- invariant over inserts ---- *)
Definition Inv (s : w) (es : block) : Prop :=
  idx s <> [] /\ pend_ok (store s) 0 (idx s) /\ es = covered (store s) 0 (idx s) ++ data s.

Lemma cut_data_inv s es : data s <> [] -> Inv s es -> Inv (cut_data s) es.
Proof.
  intros Hd (Hi & Hp & He). unfold cut_data, Inv; cbn [data idx store].
  assert (G : good (store s ++ [data s]) 0 (lastkey (data s), length (store s))).
  { cbn [good snd fst]. rewrite app_length, load_new. cbn. repeat split; auto; lia. }
  split; [destruct (idx s); [congruence|discriminate]|].
  split; [apply pend_ok_push; [apply pend_ok_app_store; exact Hp|exact G]|].
  rewrite app_nil_r, covered_push by exact Hi. cbn [under]. rewrite load_new.
  rewrite (covered_app_store _ _ _ _ Hp). exact He.
Qed.

Lemma insert_inv s es e : Inv s es -> Inv (insert s e) (es ++ [e]).
Proof.
  intros (Hi & Hp & He). unfold insert. cbn [data idx store].
  set (s1 := {| data := data s ++ [e]; idx := idx s; store := store s |}).
  assert (I1 : Inv s1 (es ++ [e])) by (unfold Inv, s1; cbn [data idx store]; rewrite He, app_assoc; auto).
  destruct (full (data s ++ [e])); [|exact I1].
  assert (I2 : Inv (cut_data s1) (es ++ [e])) by (apply cut_data_inv; [unfold s1; cbn; destruct (data s); discriminate|exact I1]).
  destruct I2 as (J1 & J2 & J3).
  pose proof (cascade_inv _ _ 0 J2) as C. destruct (cascade (store (cut_data s1)) (idx (cut_data s1))) as [st' idx'].
  destruct C as (A & B & Cn & _). unfold Inv; cbn [data idx store].
  split; [destruct idx'; [destruct (idx (cut_data s1)); [congruence|discriminate]|discriminate]|].
  split; [exact A|]. rewrite app_nil_r, B. cbn [data] in J3. rewrite app_nil_r in J3. exact J3.
Qed.

(* ---- finish ---- *)
(* height of the block written for list position p is p+1 (its items point to height-p blocks) *)
Lemma flush_from_spec : forall up cur st p, pend_ok st p (cur :: up) -> covered st p (cur :: up) <> [] ->
  let (st', root) := flush_from st cur up in
  root < length st' /\ under st' (S (p + length up)) root = covered st p (cur :: up) /\
  Forall (good st' (p + length up)) (load st' root) /\ load st' root <> [].
Proof.
  induction up as [|par rest IH]; intros cur st p [Hcur Hup] Hne.
  - cbn [flush_from length]. rewrite Nat.add_0_r. cbn [covered] in *. cbn [app] in Hne.
    assert (Hc : cur <> []) by (intro; subst; apply Hne; reflexivity).
    destruct (good_emit st p cur Hc Hcur) as [G U].
    rewrite app_length. cbn [length]. split; [lia|]. split; [rewrite U; reflexivity|].
    rewrite load_new. split; [|exact Hc]. eapply Forall_impl; [|exact Hcur]. intros; apply good_app; assumption.
  - cbn [flush_from]. destruct cur as [|c0 cur'].
    + specialize (IH par st (S p) Hup). cbn [covered] in Hne. unfold cov at 1 in Hne. cbn [flat_map] in Hne. rewrite app_nil_r in Hne.
      specialize (IH Hne). destruct (flush_from st par rest) as [st' root].
      cbn [length]. replace (p + S (length rest)) with (S p + length rest) by lia.
      destruct IH as (A & B & C & D). repeat split; auto.
      rewrite B. cbn [covered]. unfold cov at 2. cbn [flat_map]. rewrite app_nil_r. reflexivity.
    + set (cur := c0 :: cur') in *. assert (Hc : cur <> []) by discriminate.
      destruct (good_emit st p cur Hc Hcur) as [G U].
      assert (Hup' : pend_ok (st ++ [cur]) (S p) ((par ++ [(lastkey cur, length st)]) :: rest)).
      { apply (pend_ok_push _ _ (par :: rest)); [apply pend_ok_app_store; exact Hup|exact G]. }
      assert (Hcov : covered (st ++ [cur]) (S p) ((par ++ [(lastkey cur, length st)]) :: rest) = covered st p (cur :: par :: rest)).
      { pose proof (covered_push (st ++ [cur]) (S p) (par :: rest) (lastkey cur) (length st) ltac:(discriminate)) as CP.
        cbn [push_item] in CP. rewrite CP, U. rewrite (covered_app_store st [cur] _ (S p) Hup). reflexivity. }
      specialize (IH (par ++ [(lastkey cur, length st)]) (st ++ [cur]) (S p) Hup').
      rewrite Hcov in IH. specialize (IH Hne).
      destruct (flush_from (st ++ [cur]) (par ++ [(lastkey cur, length st)]) rest) as [st' root].
      cbn [length]. replace (p + S (length rest)) with (S p + length rest) by lia. exact IH.
Qed.

(* ---- the whole run ---- *)
Definition run (levels : nat) (es : block) : list block * nat := finish (fold_left insert es (init levels)).

Lemma init_inv levels : Inv (init levels) [].
Proof. unfold Inv, init; cbn [data idx store]. split; [discriminate|]. split.
  - generalize 0. induction (S levels) as [|n IH]; intro p; cbn; [exact I|]. split; [constructor|apply IH].
  - rewrite app_nil_r. generalize 0. induction (S levels) as [|n IH]; intro p; cbn; [reflexivity|]. rewrite <- IH. reflexivity.
Qed.

Lemma fold_inv es : forall s acc, Inv s acc -> Inv (fold_left insert es s) (acc ++ es).
Proof.
  induction es as [|e r IH]; intros s acc H; cbn [fold_left]; [rewrite app_nil_r; exact H|].
  replace (acc ++ e :: r) with ((acc ++ [e]) ++ r) by (rewrite <- app_assoc; reflexivity).
  apply IH. apply insert_inv. exact H.
Qed.

Lemma cascade_from_len : forall up cur st, length (snd (cascade_from st cur up)) = S (length up).
Proof.
  induction up as [|par rest IH]; intros cur st; cbn [cascade_from]; [reflexivity|].
  destruct rest as [|gp rest']; [reflexivity|].
  destruct (full cur && negb match cur with [] => true | _ => false end).
  - specialize (IH (par ++ [(lastkey cur, length st)]) (st ++ [cur])).
    destruct (cascade_from (st ++ [cur]) (par ++ [(lastkey cur, length st)]) (gp :: rest')) as [a b]. cbn [snd length] in *. lia.
  - specialize (IH par st). destruct (cascade_from st par (gp :: rest')) as [a b]. cbn [snd length] in *. lia.
Qed.

Lemma insert_idx_len s e : idx s <> [] -> length (idx (insert s e)) = length (idx s).
Proof.
  intro H. unfold insert. cbn [data idx store]. destruct (full (data s ++ [e])); [|reflexivity].
  unfold cut_data; cbn [data idx store]. destruct (idx s) as [|cur up]; [congruence|]. cbn [push_item cascade].
  pose proof (cascade_from_len up (cur ++ [(lastkey (data s ++ [e]), length (store s))]) (store s ++ [data s ++ [e]])) as C.
  destruct (cascade_from _ _ _) as [st' l']. cbn [idx snd length] in *. exact C.
Qed.

Theorem W_tree levels es : es <> [] ->
  let (st, root) := run levels es in
  root < length st /\ under st (S levels) root = es /\ Forall (good st levels) (load st root) /\ load st root <> [].
Proof.
  intro Hne. unfold run, finish.
  pose proof (fold_inv es (init levels) [] (init_inv levels)) as I. cbn [app] in I.
  assert (Hlen : length (idx (fold_left insert es (init levels))) = S levels).
  { assert (G : forall es s, idx s <> [] -> length (idx (fold_left insert es s)) = length (idx s) /\ idx (fold_left insert es s) <> []).
    { clear. induction es as [|e r IH]; intros s H; cbn [fold_left]; [auto|].
      pose proof (insert_idx_len s e H) as L. assert (idx (insert s e) <> []) by (destruct (idx (insert s e)); [destruct (idx s); [congruence|discriminate]|discriminate]).
      destruct (IH (insert s e) H0) as [A B]. split; [lia|exact B]. }
    destruct (G es (init levels)) as [A _]; [cbn; discriminate|]. rewrite A. cbn [init idx]. rewrite repeat_length. reflexivity. }
  set (s := fold_left insert es (init levels)) in *.
  assert (I1 : Inv (match data s with [] => s | _ => cut_data s end) es /\ data (match data s with [] => s | _ => cut_data s end) = [] /\
               length (idx (match data s with [] => s | _ => cut_data s end)) = S levels).
  { destruct (data s) eqn:D.
    - split; [exact I|]. split; [exact D|exact Hlen].
    - split; [apply cut_data_inv; [rewrite D; discriminate|exact I]|]. split; [reflexivity|].
      unfold cut_data; cbn [idx]. destruct (idx s); cbn in *; lia. }
  set (s1 := match data s with [] => s | _ => cut_data s end) in *.
  destruct I1 as ((J1 & J2 & J3) & Jd & Jl). rewrite Jd, app_nil_r in J3.
  destruct (idx s1) as [|cur up] eqn:Ei; [congruence|].
  pose proof (flush_from_spec up cur (store s1) 0 J2) as F. rewrite <- J3 in F. specialize (F Hne).
  destruct (flush_from (store s1) cur up) as [st root]. cbn [length] in Jl.
  replace (0 + length up) with levels in F by lia. exact F.
Qed.
End W.
Print Assumptions W_tree.
