(* C05 — Prefix iterators yield exactly the entries sharing the prefix, in order.  Statements only.
   C05_prefix / C05_rev_prefix: on every well-formed store, and so (the C05_written theorems) on every file the
   writer model finishes from a non-empty ascending input, the transcribed iterators collect, up to
   their first None, exactly the entries whose key starts with the prefix, in order / in reverse.
   The reverse iterator's statement assumes keys and prefix are byte strings (every element < 256):
   advance_key increments a byte.  fuel bounds the next() calls of the executable collect loop. *)
From Grenad.model Require Import Base Block Reader Spec Iter.
From Grenad.proofs Require Import IterProofs SpecProofs.

(* advance_key (the popping loop of prefix_iter.rs): None exactly for prefixes made only of 0xFF
   bytes (incl. the empty prefix); otherwise the successor s is such that every key with the
   prefix is < s, and every key in [prefix, s) has the prefix — the keys sharing the prefix are
   exactly the half-open interval [p, s) *)
Theorem C05_advance_key_spec : forall p, wf_bytes p ->
  (advance_key p = None <-> all255 p) /\
  (forall s, advance_key p = Some s -> forall k, wf_bytes k ->
     (starts_with k p = true -> bytes_ltb k s = true) /\
     (bytes_ltb k s = true -> bytes_leb p k = true -> starts_with k p = true)).
Proof. exact advance_key_spec. Qed.
Print Assumptions C05_advance_key_spec.

Theorem C05_prefix_keys_not_below_prefix : forall k p, starts_with k p = true -> bytes_leb p k = true.
Proof. exact starts_with_ge. Qed.
Print Assumptions C05_prefix_keys_not_below_prefix.

(* the specification the iterators are compared with is the plain filter *)
Theorem C05_prefix_spec_is_filter : forall es p e,
  In e (prefix_spec es p) <-> In e es /\ starts_with (fst e) p = true.
Proof. exact prefix_spec_in. Qed.
Print Assumptions C05_prefix_spec_is_filter.

Example C05_advance_examples :
  advance_key [1; 255; 255] = Some [2] /\ advance_key [255; 255] = None /\ advance_key [] = None /\
  advance_key [0; 7] = Some [0; 8].
Proof. vm_compute. repeat split; reflexivity. Qed.

(* ================= the iterators over the multi-level cursor ================= *)
From Grenad.model Require Import Trailer Writer.
From Grenad.proofs Require Import ReaderRefine WriterStore IterRefine WrittenIter.

Theorem C05_prefix : forall ld root levels bstore, wf_store ld root levels bstore ->
  forall p fuel, (S (length (content root levels bstore)) < fuel)%nat ->
  collect (prefix_next (cstep ld root levels) p) fuel iter_new = Done (prefix_spec (content root levels bstore) p).
Proof. exact R_prefix_fwd. Qed.
Print Assumptions C05_prefix.

Theorem C05_rev_prefix : forall ld root levels bstore, wf_store ld root levels bstore ->
  forall p fuel, Forall (fun e => wf_bytes (fst e)) (content root levels bstore) -> wf_bytes p ->
  (S (length (content root levels bstore)) < fuel)%nat ->
  collect (rev_prefix_next (cstep ld root levels) p) fuel iter_new = Done (rev (prefix_spec (content root levels bstore) p)).
Proof. exact R_prefix_bwd. Qed.
Print Assumptions C05_rev_prefix.

Theorem C05_written_prefix : forall compress decompress c,
  (forall b z, compress (wc_codec c) (wc_level c) b = Done z -> decompress (wc_codec c) z = Done b) ->
  forall es i s lg m, wc_levels c < 256 -> 1 <= wc_interval c ->
  w_run_gen vsink vs_wr vs_fl vs_count compress c vs_empty es = (i, Done (s, lg, m)) ->
  es <> [] -> sorted_strictb (map fst es) = true ->
  len (vs_bytes s) < 2^64 -> mem_ok lg ->
  forall p fuel, (S (length es) < fuel)%nat ->
  collect (prefix_next (cstep (load_block decompress (vs_bytes s) (m_codec m)) (m_root m) (m_levels m)) p) fuel iter_new = Done (prefix_spec es p).
Proof. exact written_prefix_fwd. Qed.
Print Assumptions C05_written_prefix.

Theorem C05_written_rev_prefix : forall compress decompress c,
  (forall b z, compress (wc_codec c) (wc_level c) b = Done z -> decompress (wc_codec c) z = Done b) ->
  forall es i s lg m, wc_levels c < 256 -> 1 <= wc_interval c ->
  w_run_gen vsink vs_wr vs_fl vs_count compress c vs_empty es = (i, Done (s, lg, m)) ->
  es <> [] -> sorted_strictb (map fst es) = true ->
  len (vs_bytes s) < 2^64 -> mem_ok lg ->
  forall p fuel, Forall (fun e => wf_bytes (fst e)) es -> wf_bytes p -> (S (length es) < fuel)%nat ->
  collect (rev_prefix_next (cstep (load_block decompress (vs_bytes s) (m_codec m)) (m_root m) (m_levels m)) p) fuel iter_new = Done (rev (prefix_spec es p)).
Proof. exact written_prefix_bwd. Qed.
Print Assumptions C05_written_rev_prefix.

(* ================= call by call ================= *)
(* The same for every single call of next: the first n calls (n up to the number of entries sharing the
   prefix) return Some of the first n of them, one after the other; the call after the last returns None. *)
From Grenad.proofs Require Import IterFault IterCalls.

Theorem C05_prefix_call_by_call : forall ld root levels bstore, wf_store ld root levels bstore ->
  forall p,
  (forall n, (n <= length (prefix_spec (content root levels bstore) p))%nat ->
     exists it', calls (prefix_next (cstep ld root levels) p) n iter_new
                 = Done (it', map Some (firstn n (prefix_spec (content root levels bstore) p)))) /\
  (exists it', calls (prefix_next (cstep ld root levels) p) (S (length (prefix_spec (content root levels bstore) p))) iter_new
               = Done (it', map Some (prefix_spec (content root levels bstore) p) ++ [None])).
Proof. exact prefix_calls. Qed.
Print Assumptions C05_prefix_call_by_call.

Theorem C05_rev_prefix_call_by_call : forall ld root levels bstore, wf_store ld root levels bstore ->
  forall p, Forall (fun e => wf_bytes (fst e)) (content root levels bstore) -> wf_bytes p ->
  (forall n, (n <= length (rev (prefix_spec (content root levels bstore) p)))%nat ->
     exists it', calls (rev_prefix_next (cstep ld root levels) p) n iter_new
                 = Done (it', map Some (firstn n (rev (prefix_spec (content root levels bstore) p))))) /\
  (exists it', calls (rev_prefix_next (cstep ld root levels) p) (S (length (rev (prefix_spec (content root levels bstore) p)))) iter_new
               = Done (it', map Some (rev (prefix_spec (content root levels bstore) p)) ++ [None])).
Proof. exact rev_prefix_calls. Qed.
Print Assumptions C05_rev_prefix_call_by_call.
