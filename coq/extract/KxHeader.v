(* Header of the kernel cross-check files (work/<id>/<scenario>.kx.v): the goals that follow are written by
   ocaml/driver.ml from values it computed with the EXTRACTED model; coqc re-evaluates each left-hand side
   with vm_compute inside the kernel.  Definitions only. *)
From Grenad.gen Require Export Consts.
From Grenad.model Require Export Base Varint Block Trailer Writer Reader Spec Iter Format Merger Sorter IoModel StoreCheck.
Open Scope N_scope.

Fixpoint kx_hist (ld : N -> N -> outcome block) (root levels : N) (st : cstate) (ops : list op) : outcome (list (option entry)) :=
  match ops with
  | [] => Done []
  | o :: r => do x <- cstep ld root levels st o; do y <- kx_hist ld root levels (fst x) r; Done (snd x :: y)
  end.

Definition kx_wres (r : wresult) : (bytes * N * N) + option (option N) :=
  match r with
  | WFile f _ m => inl (f, m_root m, m_count m)
  | WPanicInsert i => inr (Some (Some i))
  | WPanicFinish => inr (Some None)
  | WFail _ => inr None
  end.

Definition kx_sres (r : N * outcome (ssink * list emitted * meta)) : N * option (bytes * list N) :=
  match r with
  | (i, Done (s, _, _)) => (i, Some (sk_bytes s, sk_calls s))
  | (i, _) => (i, None)
  end.

Definition kx_fres (r : N * outcome (fsink * list emitted * meta)) : N * outcome N :=
  match r with
  | (i, Done (s, _, _)) => (i, Done (vs_count (fk_sink s)))
  | (i, Panic) => (i, Panic)
  | (i, Fail e) => (i, Fail e)
  end.

Definition kx_nres (r : outcome nstate) : outcome (N * N * N * N * N * N) :=
  omap (fun ns => (eb_L (ns_buf ns), eb_U (ns_buf ns), eb_n (ns_buf ns), ns_chunks ns, ns_creates ns, ns_peak ns)) r.

Definition kx_dres (r : outcome (meta * list entry * list (N * N * block))) : option (N * list entry * bool) :=
  match r with
  | Done (m, des, nodes) => Some (m_root m, des, StoreCheck.store_wf nodes (m_root m) (m_levels m))
  | _ => None
  end.
