(* The abstract specification the properties talk about: a sorted entry list, ceiling /
   floor / match by linear search, and the abstract cursor Fresh | At i | Unspec. *)
From Grenad.model Require Import Base Reader.

Fixpoint ceil_idx (es : list entry) (q : bytes) (i : N) : option (N * entry) :=
  match es with
  | [] => None
  | (k, v) :: r => if bytes_leb q k then Some (i, (k, v)) else ceil_idx r q (N.succ i)
  end.

Fixpoint floor_idx (es : list entry) (q : bytes) (i : N) (best : option (N * entry)) : option (N * entry) :=
  match es with
  | [] => best
  | (k, v) :: r => if bytes_leb k q then floor_idx r q (N.succ i) (Some (i, (k, v))) else best
  end.

Definition find_idx (es : list entry) (q : bytes) : option (N * entry) :=
  match ceil_idx es q 0 with
  | Some (i, (k, v)) => if bytes_eqb k q then Some (i, (k, v)) else None
  | None => None
  end.

Inductive apos : Type := Fresh | At (i : N) | Unspec.

(* result: None = the property leaves it unspecified; Some r = it must be r *)
Definition at_result (r : option (N * entry)) : apos * option (option entry) :=
  match r with
  | Some (i, e) => (At i, Some (Some e))
  | None => (Unspec, Some None)
  end.

Definition aspec (es : list entry) (p : apos) (o : op) : apos * option (option entry) :=
  let n := len es in
  let first := match es with e :: _ => Some (0, e) | [] => None end in
  let last := match last_opt es with Some e => Some (n - 1, e) | None => None end in
  match o with
  | OFirst => at_result first
  | OLast => at_result last
  | OGe q => at_result (ceil_idx es q 0)
  | OLe q => at_result (floor_idx es q 0 None)
  | OEq q => at_result (find_idx es q)
  | ONext =>
    match p with
    | Fresh => at_result first
    | At i => at_result (match nthN (i + 1) es with Some e => Some (i + 1, e) | None => None end)
    | Unspec => (Unspec, None)
    end
  | OPrev =>
    match p with
    | Fresh => at_result last
    | At i => at_result (if i =? 0 then None
                         else match nthN (i - 1) es with Some e => Some (i - 1, e) | None => None end)
    | Unspec => (Unspec, None)
    end
  | OReset => (Fresh, Some None)
  | OCurrent =>
    match p with
    | Fresh => (Fresh, Some None)
    | At i => (At i, Some (nthN i es))
    | Unspec => (Unspec, None)
    end
  end.

(* range / prefix specifications *)
Inductive bound : Type := Unbounded | Included (b : bytes) | Excluded (b : bytes).

Definition lo_ok (lo : bound) (k : bytes) : bool :=
  match lo with Unbounded => true | Included a => bytes_leb a k | Excluded a => bytes_ltb a k end.
Definition hi_ok (hi : bound) (k : bytes) : bool :=
  match hi with Unbounded => true | Included b => bytes_leb k b | Excluded b => bytes_ltb k b end.
Definition in_range (lo hi : bound) (e : entry) : bool := lo_ok lo (fst e) && hi_ok hi (fst e).

Definition range_spec (es : list entry) (lo hi : bound) : list entry := filter (in_range lo hi) es.
Definition prefix_spec (es : list entry) (p : bytes) : list entry := filter (fun e => starts_with (fst e) p) es.

(* sortedness predicates (boolean, for the driver) *)
Fixpoint sorted_strictb (ks : list bytes) : bool :=
  match ks with
  | [] => true
  | a :: r => match r with [] => true | b :: _ => bytes_ltb a b && sorted_strictb r end
  end.

(* ---- the abstract cursors of a multi-cursor history: positions indexed by identifier ---- *)
Fixpoint amrun (es : list entry) (ps : list apos) (ops : list mop) : list apos * list (option (option entry)) :=
  match ops with
  | [] => (ps, [])
  | MClone i :: r =>
    match nth_error ps i with
    | Some p => amrun es (ps ++ [p]) r
    | None => (ps, [])
    end
  | MOp i o :: r =>
    match nth_error ps i with
    | Some p =>
      let a := aspec es p o in
      let y := amrun es (set_nth i (fst a) ps) r in
      (fst y, snd a :: snd y)
    | None => (ps, [])
    end
  end.
