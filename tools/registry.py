"""Per-property configuration of ./check: the props file holding the theorems, the harness
scenarios of the correspondence, what is trusted, what is not proved."""

ALLOWED_AXIOMS = {
    # standard-library axioms that may appear (named in the evidence when they do)
    "functional_extensionality_dep", "proof_irrelevance", "classic", "JMeq_eq", "Eq_rect_eq", "eq_rect_eq",
}

TRUSTED_BASE = [
    "Coq 8.16.1 kernel (coqc full .vo builds; vm_compute for Examples; no native_compute; coqchk in the thorough tier)",
    "hand-written Gallina model of grenad (coq/model/*.v): the theorems are about the model, tied to /repo by (a) constants re-extracted from /repo/src into coq/gen/Consts.v on every run (tools/extract_consts.py, regular expressions) and (b) differential execution of the extracted model against the implementation on the cases of this run",
    "extraction: Extraction Language OCaml with ExtrOcamlBasic only (Extract Inductive bool/option/unit/list/prod/sumbool/sumor, Extract Inlined Constant for their projections and connectives as that file declares); no Extract Constant/Inductive of our own; N/positive/nat/comparison stay inductive",
    "OCaml driver ocaml/driver.ml (hex parsing, int<->N conversion, comparison and printing) and the Rust harness /verif/harness (generators, instrumented sinks/sources, catch_unwind)",
]

WPROG = "progress of the writer model (that it FINISHES, without panic or error, on every strictly ascending input with entries below u32::MAX and a total codec) is a hypothesis of the end-to-end theorems, validated on every generated file by byte-exact comparison with the implementation"
PROPS = {
    "C14": {
        "prop_file": "props/C14.v",
        "scenarios": [{"name": "C14"}, {"name": "file-c14", "timeout": 1200}, {"name": "C14-big", "no_driver": True, "timeout": 1200}],
        "thorough_scenarios": [{"name": "C14-sweep", "no_driver": True, "timeout": 1200}],
        "rule": "values: every 2^k +-64 neighbourhood of the framing boundaries (k=7,14,21,28,32), +-2 around every other power of two, plus values stratified uniformly over bit lengths, each with random trailing bytes; plus whole files whose key/value lengths sit at and around every framing boundary reachable in memory (127/128, 255/256, 16383/16384; 2^21 in the thorough tier) through the real writer and reader, and one entry with a 2^28-byte value (five-byte prefix; implementation only); non-trivial = distinct value >= 128 (multi-byte encoding); thorough adds the implementation-side sweep of all 2^32 values against the statement",
        "trusted": ["varint functions reached through the cfg(grenad_verif) re-export grenad::verif::{varint_encode32, varint_decode32}"],
        "assumptions": ["u32 arithmetic is modelled as N with explicit mod 2^32 / mod 256 truncations"],
        "not_proved": [],
    },
}

PROPS.update({
    "C13": {
        "prop_file": "props/C13.v",
        "scenarios": [{"name": "open-c13"}],
        "rule": "byte strings: every truncation (crash point) of small generated files and the last 80 of larger ones, single-byte corruptions of the 22 trailer bytes, every length 4..30 x codec byte 0..7 x both magics, all strings of length <=3 over a 6-symbol alphabet followed by a magic, random strings of length 0..64; distinct by the last 64 bytes; non-trivial = at least 4 bytes long (the magic can be read)",
        "trusted": ["std::io::Cursor semantics of SeekFrom::End and read_exact as modelled in Trailer.v (seek_end, read_exact_at)"],
        "assumptions": ["the source is an in-memory byte string (Cursor<&[u8]>); other Read+Seek sources may report different io::ErrorKind for a negative seek"],
        "not_proved": [],
    },
    "C10": {
        "prop_file": "props/C10.v",
        "scenarios": [{"name": "hist-c10"}],
        "rule": "single-level files of every codec/block size/interval, each re-trailed with a hand-assembled 21-byte V1 trailer; the same random cursor history is run on the V1 and V2 variants and compared with the model and with the sorted-list specification; non-trivial = file with >= 2 entries and >= 2 operations, distinct by file+history hash",
        "trusted": [],
        "assumptions": ["functional_extensionality_dep (Coq standard library axiom) is used by C10_cursor_depends_on_loader_only"],
        "not_proved": ["identical results are proved for any two well-formed stores with the same content (C10_same_content_same_histories / ranges / prefixes) and a V1 file is proved to be such a store when its body is that of a single-level file of the writer model (C10_v1_twin); that the files the frozen 0.4.7 writer produces are well-formed stores is not a theorem (its code is not modelled) — they are read back through implementation, model and specification in every run; " + WPROG],
    },
})

FILE_RULE = "writer configurations: codec in all six (level 0..u32::MAX, zstd <= 19), block size through the public clamped setter {0,1,1023,1024,1025,2048,8192,...} and 16..256 through the unclamped hook, index interval {default,1,2,3,8,random<=64}, index levels {0,1,2,3,4,7,254,255} (+ sweep), 0..400 entries with keys over a 4-symbol alphabet incl. the empty key, 0xFF runs, boundary lengths 127/128/16383/16384, values from empty to larger than a block; non-trivial = file with more blocks than index levels + 2, distinct by file bytes"
PROPS.update({
    "C01": {
        "prop_file": "props/C01.v",
        "scenarios": [{"name": "file-c01", "timeout": 1200}],
        "rule": FILE_RULE,
        "trusted": ["codec crates (snap, flate2, lz4_flex, zstd): the model's compress/decompress are the table of (uncompressed, compressed) block pairs the codec produced in this run, each checked to decompress back"],
        "assumptions": [],
        "not_proved": ["C01_roundtrip is proved end to end on the models for every non-empty strictly ascending input and every configuration (W composed with R); " + WPROG + "; the empty file (root block with no entries) is outside wf_store and is covered by the correspondence only; range/prefix iterators are C04/C05"],
    },
    "C09": {
        "prop_file": "props/C09.v",
        "scenarios": [{"name": "file-c09", "timeout": 1200}],
        "rule": FILE_RULE + "; each file is also read by the frozen grenad 0.4.7 reader, and the same inputs are written by the 0.4.7 writer (codecs both versions support) and read by the current reader and the model",
        "trusted": ["grenad 0.4.7 from the offline cargo registry as the frozen peer", "codec crates via the per-run compression table"],
        "assumptions": [],
        "not_proved": ["C09_written_file_well_formed (the written file is a wf_store whose content is the inserted entries) is proved; " + WPROG + "; interoperability with grenad 0.4.7 is by differential execution against the frozen crate, not a theorem; the compressed bytes are whatever the codec crate produces (only decompress . compress = id is assumed)"],
    },
    "C15": {
        "prop_file": "props/C15.v",
        "scenarios": [{"name": "file-c15", "timeout": 1200}],
        "rule": FILE_RULE + "; plus block sizes around the clamp {0,1,1023,1024,1025,2048} with entries sized to land the estimate on B-1, B, B+1",
        "trusted": [],
        "assumptions": [],
        "not_proved": ["the connection between the proved per-block statement (the block writer was below B before its last insert) and the byte-level predicate Format.size_without_last evaluated by the driver on decoded blocks is by execution only"],
    },
    "C18": {
        "prop_file": "props/C18.v",
        "scenarios": [{"name": "file-c18", "timeout": 1200}],
        "rule": "mostly sorted insert sequences with one defect (duplicate next to its predecessor, adjacent inversion, jump back to the first key, repeated earlier entry, empty key in the middle) or none, under the writer configurations of C01 incl. tiny unclamped blocks and up to 4 index levels; non-trivial = the writer panicked or the file has more blocks than levels + 2",
        "trusted": [],
        "assumptions": [],
        "not_proved": ["that the whole writer panics at exactly the first offending insert (rather than merely: panics, or emits only sorted blocks) is proved per block writer (C18_panic_point) and compared with the implementation on every defective sequence (same panic index), but not lifted to the whole writer"],
    },
})


HIST_RULE = "files from the writer-configuration generator biased to tiny unclamped blocks and 1..4 index levels (several blocks at non-root index levels), 0..300 entries; probe keys cover every class: each stored key, key+00, key+FF, key minus last byte, predecessor by last byte, empty, below first, above last, random; non-trivial = file with >= 2 entries and >= 2 operations, distinct by file+history hash"
READER_TRUST = ["the reader refinement R is proved on the executable model for every well-formed STORE (proofs/ReaderRefine.v: wf_store = every block offset maps to a well-formed parsed block, index items carry last keys and 8-byte offsets, level sequences ascending, offsets of different levels distinct), and every file the writer model finishes from a non-empty strictly ascending input is proved to be such a store with content = the inserted entries (backbone W: proofs/WriterTree.v, WriterStore.v); the executable models are tied to the implementation by byte-exact files, results, block-load counts and cached-block fingerprints after every operation"]
PROPS.update({
    "C02": {"prop_file": "props/C02.v", "scenarios": [{"name": "hist-c02"}], "rule": HIST_RULE + "; every seek on a fresh or reset cursor",
            "trusted": READER_TRUST, "assumptions": [],
            "not_proved": ["C02_seeks (every wf_store, any depth, any cursor state) and C02_written_file_seeks (files of the writer model, non-empty input) are proved; " + WPROG + "; seeks on the empty file are covered by the correspondence only"]},
    "C03": {"prop_file": "props/C03.v", "scenarios": [{"name": "hist-c03"}], "rule": HIST_RULE + "; random histories over up to 4 cursors (clones), runs of relative moves followed by absolute moves (the stale-cache shape), with the D2 replay first",
            "trusted": READER_TRUST, "assumptions": ["functional_extensionality_dep (stdlib axiom) in C03_depends_on_loader_only"],
            "not_proved": ["C03_step / C03_history (every wf_store) and C03_written_file_history (files of the writer model) are proved for every admissible history of one cursor (clones are value copies: each follows its own history); " + WPROG + "; relative moves issued after a None are unspecified by the property and are only shown to keep the cache coherent when they return"]},
    "C04": {"prop_file": "props/C04.v", "scenarios": [{"name": "iter-c04"}], "rule": HIST_RULE + "; 24 ranges per file over all 9 bound-kind pairs with equal and inverted bounds forced, both directions",
            "trusted": READER_TRUST, "assumptions": [],
            "not_proved": ["C04_range / C04_rev_range are proved for every wf_store and for the files of the writer model (non-empty input); " + WPROG + "; ranges over the empty file, and calls made after the first None (unspecified by the property), are covered by the correspondence only"]},
    "C05": {"prop_file": "props/C05.v", "scenarios": [{"name": "iter-c05"}], "rule": HIST_RULE + "; 24 prefixes per file: empty, 0xFF runs, proper prefixes of stored keys, prefixes whose successor is a stored key, key+FF, random; both directions",
            "trusted": READER_TRUST, "assumptions": [],
            "not_proved": ["C05_prefix / C05_rev_prefix are proved for every wf_store and for the files of the writer model (non-empty input; the reverse iterator under the hypothesis that keys and prefix are byte strings, every element < 256); " + WPROG + "; the empty file and calls after the first None are covered by the correspondence only"]},
    "C16": {"prop_file": "props/C16.v", "scenarios": [{"name": "hist-c16"}], "rule": HIST_RULE + "; block loads (absolute seeks) counted per operation by an instrumented source",
            "trusted": READER_TRUST, "assumptions": [],
            "not_proved": ["C16_loads (every wf_store) and C16_written_file_loads (files of the writer model) are proved; " + WPROG + "; the count is of block loads in the model, tied to the implementation's seeks by the instrumented source of the correspondence"]},
    "C06": {"prop_file": "props/C06.v", "scenarios": [{"name": "merge-c06"}],
            "rule": "0..8 sources over a shared key pool with forced overlap patterns (disjoint, identical, chains, random), empty sources, each source written with its own file configuration; values tagged with their source; order-revealing merge function (concatenation) logging every call, and merge functions failing at a chosen call; non-trivial = >= 2 sources and >= 2 entries, distinct by the source files",
            "trusted": ["sources are modelled by the entry lists their files hold (C01)", "BinaryHeap::pop returns the maximum of a strict total order (std)"], "assumptions": [],
            "not_proved": ["C06_merge_is_calls + C06_calls + C06_output + C06_failure are the full statement on the executable transcription of merger.rs; a source is modelled by the entry list its cursor yields (justified by C01/C03; cursor I/O errors inside the merger are C12); the final clause (streaming into a writer) is the composition with C01_roundtrip on the strictly ascending output and is exercised, not separately stated; BinaryHeap::pop is modelled as removing the least element of a list"]},
    "C07": {"prop_file": "props/C07.v", "scenarios": [{"name": "sorter-c07", "timeout": 1200}],
            "rule": "hook-driven budgets 64..4096+, initial capacity 16..budget, max_nb_chunks 0..5, stable/unstable, sequential/parallel (rayon), chunk codecs, chunk index levels 0..2 and block sizes 32..8192, instrumented in-memory chunk storage; 0..400 inserts over a small key pool (heavy duplication) with entry sizes from empty to 3x the budget; all three output paths; non-trivial = at least two chunk creations, distinct by configuration+inserts",
            "trusted": ["sort_by_key / sort_unstable_by_key / rayon par_sort* contracts (sorted permutation, stable for Stable, for every schedule)", "chunk files are modelled by the entry lists they hold (C01)"], "assumptions": ["unstable algorithm is compared under a commutative merge function (sorted bytes of all values)"],
            "not_proved": ["C07_sorter_stable on the executable Sorter.sorter_run (= Sorter.sorter_spec for every configuration): proved on the abstract model of design-notes/SorterMerge_probe.v under assoc_mf; on the executable model only the sort step is proved (C07_sort_is_permutation, C07_sort_is_sorted); validated on every generated case"]},
    "C08": {"prop_file": "props/C08.v", "scenarios": [{"name": "sorter-c08", "timeout": 1200}],
            "thorough_scenarios": [{"name": "sorter-real", "timeout": 1800, "shards": 3}],
            "rule": "as C07 but every entry <= budget/4; after every insert the hook triple (buffer length, data bytes, bound count) and chunk count are compared with the model and the bounds evaluated; chunk objects count their own creation and drop; thorough adds 64 MB of inserts at the real 10 MiB minimum budget without hooks",
            "trusted": [], "assumptions": ["hypotheses of C08_bounds: 64 <= T < 2^64, 1 <= initial capacity <= T (= T without reallocation), M >= 1, entries <= T/4"],
            "not_proved": ["the projection lemma 'Sorter.s_insert bookkeeping = Sorter.n_insert' (both are compared with the implementation after every insert)"]},
    "C17": {"prop_file": "props/C17.v", "scenarios": [{"name": "sorter-c17", "timeout": 1200}],
            "rule": "as C07 (entries from empty to larger than the buffer, repeated doubling, exact fill); overflow checks and debug assertions ON for grenad in the harness build; a tracking global allocator checks that every 8-aligned 16-multiple allocation is freed with the layout it was allocated with",
            "trusted": ["what no executable Gallina model can express: that slice::from_raw_parts over the allocation and the transmute-to-'static sites respect Rust's aliasing and lifetime rules; the allocator itself"], "assumptions": [],
            "not_proved": ["memory-safety of the unsafe blocks beyond index arithmetic (outside the technique); reader/merger borrowed-slice lifetimes"]},
})

PROPS.update({
    "C11": {"prop_file": "props/C11.v", "scenarios": [{"name": "io-write"}, {"name": "io-read", "timeout": 1200}],
            "rule": "writer: generated configurations and entries written through a sink driven by an explicit schedule (one byte per call, interruption before every call, alternating, random sizes, random interruptions), the schedule replayed by the model (delivered bytes and the exact sequence of write-call sizes); readers: cursor histories on all six codecs, mergers and sorters (chunk storage) re-run under 4 PRNG-driven schedules of short reads/partial writes/interruptions and compared with the unscheduled run; non-trivial = more write calls than inserts+10 / distinct reference results",
            "trusted": ["std::io::Write::write_all, Read::read_exact, Read::read_to_end and io::Take follow their documented loops (modelled in IoModel.v; the write side is validated call by call against the real std loop)", "third-party decoders (snap, flate2, lz4_flex behind read_to_end after the D4 repair, zstd) handle short reads/Interrupted of the reader they wrap: exercised on all codecs, not modelled"],
            "assumptions": ["benign schedules: every accepted transfer is >= 1 byte (a sink accepting 0 bytes is WriteZero by std's contract)"],
            "not_proved": ["the composition 'every reader/merger/sorter result is unchanged' is reduced to C11_block_load (each block load is schedule-independent) + the cursor depending on the source only through block loads (C10_cursor_depends_on_loader_only); the open path (Metadata::read_from under a schedule) and third-party decoder internals are validated by the correspondence only"]},
    "C12": {"prop_file": "props/C12.v", "scenarios": [{"name": "faults-c12", "timeout": 1500}],
            "rule": "exhaustive single-fault enumeration per scenario: writer — every byte position of the output (every 7th for files > 700 B) and the flush; reader history — every seek and every read call incl. those of open; sorter — every ChunkCreator::create (io / InvalidFormatVersion / InvalidCompressionType errors), every merge-function call, chunk-storage writes (every 5th byte), flushes, reads (every 3rd), seeks (every 2nd); merger — every source read and seek; the harness records the public call in progress when the fault fired; non-trivial = distinct scenario",
            "trusted": ["the fault-injecting components of the harness (Sched/Ctl) and catch_unwind"],
            "assumptions": [],
            "not_proved": ["reader side: 'the operation during which load #j happens returns the injected error and earlier operations are unaffected' (compared with the model's faulty_load on every seek/read position, not yet proved); sorter/merger chunk-I/O faults are checked against the specification only (fault fired during call i => call i returns Err(Io), never a panic or success); 'never panics' on well-formed inputs needs R"]},
})

NOT_APPLICABLE = {}

MANIFEST_TEXT = {
    "C01": {
        "text": "Proved for all inputs and configurations on the executable models (C01_roundtrip): whenever the writer model finishes a non-empty strictly ascending input, the file opens with the written trailer (count = inserts, configured codec) and a fresh cursor scans forward exactly the inserted entries then None, backward exactly their reverse then None — composition of the block round trip (C01_block_roundtrip), the trailer round trip, the writer tree invariant over the whole run (W) and the cursor refinement for every well-formed store of any index depth (R: C01_scan_forward, C01_scan_backward). The models are tied to the code byte for byte: every run compares the model writer's file with the real writer's for all six codecs, and full forward/backward scans through implementation, model reader and specification, including the empty file.",
        "design_ref": "DESIGN.md §5 C01, §4 (W, R)",
        "note": "Whole-file theorem proved on the models; writer progress and the empty file are validated, not proved (see evidence.not_proved). Trusted: kernel; transcription of writer.rs/block*.rs/reader_cursor.rs validated by correspondence; codec crates via per-run compression table (assumed: decompress inverts compress); extraction, driver, harness. Axioms: none.",
        "technique": "Rocq proof (invariants by induction over inserts for blocks and the index tree, refinement of the multi-level cursor to an abstract cursor, composed end to end) + byte-exact model/implementation differential execution",
    },
    "C09": {
        "text": "Proved for the whole writer model (C09_file_structure, C09_blocks_load_back, C09_written_file_well_formed — the file of any finished run on a non-empty ascending input is a well-formed store whose data level is exactly the inserted entries): the file is the frames of the emitted blocks (u64 BE compressed length + block) at their recorded offsets followed by the 22-byte trailer, the root block last and named by the trailer, and at every index level the entries are exactly the (last key, u64 BE offset) items of the blocks one level below while the data level spells exactly the inserted entries; plus the layout of every finished block (varint-framed entries, u64 BE offset table with first 0 and one slot per interval, u32 BE count: C09_block_layout), that an independent decoder recovers its entries (C09_block_decodes) and the 22-byte LE trailer layout with magic 0x6723D4C4 (C09_trailer_layout, C09_constants over re-extracted constants). Every run: model file = implementation file byte for byte, the extracted independent tree decoder recovers the inputs, the frozen grenad 0.4.7 reader recovers them, and files written by the 0.4.7 writer are read back by the current reader and the model.",
        "design_ref": "DESIGN.md §5 C09",
        "note": "Format clauses proved on the writer model; 0.4.7 interoperability is by differential execution (see evidence.not_proved). Trusted: kernel; grenad 0.4.7 as frozen peer; codec crates; extraction, driver, harness. Axioms: none.",
        "technique": "Rocq proof (format lemmas per block and trailer, index-tree invariant over the whole writer run) + independent extracted decoder + 0.4.7 interop matrix by differential execution",
    },
    "C15": {
        "text": "Proved for the whole writer model over any sink and any insert sequence (C15_cut, C15_reached, C15_overshoot, by an invariant over Writer::insert's cascade and into_inner's flush): every emitted data block and index block of level >= 2 was below B before its last insert, every such block emitted while inserting has reached B, none exceeds B by more than one framed entry plus 8 bytes; the size estimate is the exact finished size (C15_size_exact); the clamp is max(1024, s) (C15_constants). Every run evaluates the two cut clauses (size without last entry < B; every non-last block of its level >= B) on every emitted data block and index block of level >= 2 of every generated file, and compares emitted bytes with the model.",
        "design_ref": "DESIGN.md §5 C15",
        "note": "Proof complete for the writer model; tie to writer.rs by byte-exact correspondence. Trusted: kernel; transcription validated by correspondence; extraction, driver, harness. Axioms: none.",
        "technique": "Rocq proof (size exactness, growth bound) + per-block cut predicates evaluated on implementation output + byte-exact model comparison",
    },
    "C18": {
        "text": "Proved for the whole writer model over any sink and every insert sequence (C18_writer_blocks_legal, C18_sorted_or_panic, C18_legal_block_is_sorted): a run that neither panics nor fails emits only blocks — data and index alike — that parse and decode to strictly ascending keys; per block writer, the panic happens exactly at the first key not above the last key (C18_panic_point, C18_block_sorted_or_panic). Every run: mostly-sorted sequences with planted defects through implementation and model (same panic index or byte-identical file) and sortedness of every emitted block.",
        "design_ref": "DESIGN.md §5 C18",
        "note": "Proof complete for the writer model (sorted-or-panic); tie to writer.rs by byte-exact correspondence. Trusted: kernel; transcription validated by correspondence; extraction, driver, harness. Axioms: none.",
        "technique": "Rocq proof (invariant by induction over inserts, dichotomy) + model/implementation differential execution on defective insert sequences",
    },
    "C13": {
        "text": "Theorems C13_no_panic and C13_open_iff prove for EVERY byte string that the transcribed Metadata::read_from never panics and succeeds exactly when the string ends in a complete V1/V2 trailer with a known codec id (literals of the property text, tied to the code's constants by C13_constants over the re-extracted Consts.v); C13_truncations instantiates it at every crash point. The transcription is validated every run against Reader::new on all truncations/corruptions/short strings generated.",
        "design_ref": "DESIGN.md §5 C13",
        "note": "Trusted: Coq kernel; std::io::Cursor seek/read_exact semantics as modelled; the transcription of metadata.rs (validated by the correspondence); extraction, driver, harness. Axioms: none.",
        "technique": "Rocq proof (exhaustive case analysis of the trailer reader over arbitrary byte strings) + model/implementation differential execution",
    },
    "C10": {
        "text": "C10_v1_open proves that the 21-byte V1 trailer of the property text opens as version 1 with the stored count/codec and index_levels 0 for every body; C10_load_ignores_trailer and C10_cursor_depends_on_loader_only prove that block loads inside the body and hence all cursor results cannot depend on which trailer follows. C10_same_content_same_histories / _ranges / _prefixes prove that any two well-formed stores with the same content (whatever trailer version, block boundaries, index depth or codec) answer every admissible cursor history and every range and prefix query, forward and reverse, identically; C10_v1_twin proves that the body of a single-level file of the writer model under the version-1 trailer opens as version 1 and is such a store. Every run: identical histories and queries on V1 and V2 variants of generated files (all codecs, hand-assembled trailers with 64-bit counts, files of the frozen 0.4.7 writer) through implementation, model and specification.",
        "design_ref": "DESIGN.md §5 C10",
        "note": "0.4.7-written files are validated, not proved, to be well-formed stores (see not_proved in the evidence). Axiom: functional_extensionality_dep (stdlib). Trusted: kernel, transcription of metadata.rs/reader_cursor.rs (validated by correspondence), extraction, driver, harness.",
        "technique": "Rocq proof (trailer layout, frame locality, results as functions of the content via the cursor refinement) + model/implementation/specification differential execution on V1 vs V2 files",
    },
    "C14": {
        "text": "Theorems C14_varint / C14_varint_no_panic / C14_lengths prove, for all 2^32 lengths and arbitrary trailing bytes, that the transcribed varint_encode32/varint_decode32 round-trip in 1..5 bytes consuming exactly those bytes (base-128 digit arithmetic, no enumeration). The transcription is tied to src/varint.rs by running both on boundary neighbourhoods and stratified random values every run (thorough: all 2^32 values through the implementation against the statement).",
        "design_ref": "DESIGN.md §5 C14",
        "note": "Trusted: Coq kernel; the hand transcription of varint.rs (validated by the correspondence); extraction + OCaml driver; the harness. Axioms: none (Closed under the global context).",
        "technique": "Rocq proof (induction-free arithmetic on base-128 digits) + model/implementation differential execution",
    },
}

def _mt(text, ref, note, tech):
    return {"text": text, "design_ref": ref, "note": note, "technique": tech}
_PARTIAL = " Partial proof: see not_proved in the evidence file. Trusted: Coq kernel; the hand transcription (validated by the correspondence of every run); extraction, OCaml driver, Rust harness."
MANIFEST_TEXT.update({
    "C02": _mt("Proved on the executable model: in-block seeks return the exact floor/ceiling on every well-formed block (C02_block_floor, C02_block_ceiling), every block finished by the block writer is well-formed (C02_finished_blocks_wellformed), and the whole multi-level cursor returns the exact ceiling/floor/match of the content from ANY state of ANY well-formed store of any depth (C02_seeks: the ceiling is found through the index because items carry last keys), and every file the writer model finishes from a non-empty ascending input is such a store with exactly the inserted content (C02_written_file_seeks). Every run: every probe class on fresh/reset cursors through implementation, executable model and specification, incl. multi-level files with several blocks per index level and V1/0.4.7-independent layouts.", "DESIGN.md §5 C02", "Axioms: none." + _PARTIAL, "Rocq proof (refinement of the multi-level cursor to the abstract cursor, composed with the writer tree invariant) + implementation/model/specification differential execution over all probe classes"),
    "C03": _mt("Proved on the executable model for any index depth (C03_step, C03_history): on every well-formed store the cursor refines the abstract cursor Fresh|At i|Unspec — after ANY history first/last/seeks return the specified entry, next/prev step to the neighbour, current is the last returned entry, and the per-level block cache stays coherent (the invariant the D2 defect broke); composed with the writer invariant, the same holds on every file the writer model finishes from a non-empty ascending input, with the abstract cursor running over the inserted entries themselves (C03_written_file_history); plus in-block moves as index moves and the structural lemmas. Every run: random multi-cursor histories with results, per-operation block loads and the fingerprint of every cached block compared between implementation and model after every step, results compared with the abstract cursor wherever it specifies them; the D2 replay runs first.", "DESIGN.md §5 C03", "Axiom: functional_extensionality_dep (stdlib)." + _PARTIAL, "Rocq proof (refinement to an abstract cursor by a cache-coherence invariant over operation histories) + state-level implementation/model correspondence on operation histories + abstract-cursor oracle"),
    "C04": _mt("Proved on the executable models for all bounds (C04_range, C04_rev_range, C04_written_range, C04_written_rev_range): on every well-formed store of any index depth, and on every file the writer model finishes from a non-empty ascending input, the forward range iterator collects up to its first None exactly the filter of the content by both bounds in ascending order, the reverse iterator exactly its reverse — by composing the cursor refinement with a scan lemma (sortedness turns the first-match seek and the stop-at-first-failure into filters). Every run: ranges over all bound-kind pairs (equal, inverted, absent, present bounds), forward and reverse, through implementation, model and specification.", "DESIGN.md §5 C04", "Axioms: none." + _PARTIAL, "Rocq proof (iterator = filter, over the cursor refinement and the writer invariant) + implementation/model/specification differential execution"),
    "C05": _mt("Proved for all byte strings: advance_key returns None exactly for all-0xFF prefixes and otherwise the exclusive upper end of the interval of keys sharing the prefix (C05_advance_key_spec); and on the executable models (C05_prefix, C05_rev_prefix, C05_written_prefix, C05_written_rev_prefix) the forward prefix iterator collects, up to its first None, exactly the entries whose key starts with the prefix in ascending order and the reverse iterator exactly their reverse, on every well-formed store and on every file the writer model finishes from a non-empty ascending input (the reverse one uses that a failed lower-or-equal seek leaves current() on an entry above the probe: R_le_none). Every run: prefixes of every class (empty, 0xFF runs, successor stored, longer than every key) forward and reverse through implementation, model and specification.", "DESIGN.md §5 C05", "Axioms: none." + _PARTIAL, "Rocq proof (induction on the prefix: carry loop, prefix interval; iterator = filter over the cursor refinement and the writer invariant) + implementation/model/specification differential execution"),
    "C06": _mt("Proved on the executable transcription of merger.rs for any number of strictly ascending sources and any merge function (C06_merge_is_calls, C06_calls, C06_output, C06_failure): the heap-based merger equals the application of the merge function to a call sequence whose keys are strictly ascending, are exactly the union of the sources' keys, and each carry exactly that key's values in source order — one call per key with consecutive ordinals, the first failing call deciding the result; by a refinement from the heap (pop least (key, index), pop equal keys, push advanced cursors) to an index-ordered abstract merge, plus the heap lemmas. Every run: outputs, the exact sequence of (key, values) the merge function receives, failures of the merge function, and the file produced through a writer, for implementation vs model, plus the three defining clauses evaluated on the implementation's output.", "DESIGN.md §5 C06", "Axioms: none." + _PARTIAL, "Rocq proof (refinement of the heap merger to an abstract index-ordered merge; induction on the total remaining length) + implementation/model differential execution with call logging"),
    "C07": _mt("Proved on the executable model: the sort step is a sorted permutation. The spill/merge independence is proved on the abstract model (design-notes). Every run: all three output paths of the real sorter under tiny budgets (hundreds of spills and chunk merges per case), both algorithms, rayon on/off, equal to the model and to sort-and-merge of the inserts.", "DESIGN.md §5 C07", "Axioms: none." + _PARTIAL, "Rocq proof (sort lemmas; abstract chunk-merge theorem) + implementation/model/specification differential execution"),
    "C08": _mt("Proved for unbounded insert sequences (C08_bounds, C08_volume): under 64 <= T < 2^64, capacity <= T, M >= 1 and entries <= T/4 every insert succeeds, the unspilled volume stays <= 2T (T without realloc), at most M+2 chunks are alive, every chunk comes from the creator. Every run: buffer triple and chunk count after every insert equal to the model, creator calls equal, live-chunk peak <= model.", "DESIGN.md §5 C08", "Axioms: none. Complete for the numeric model; its tie to sorter.rs is the per-insert comparison." + _PARTIAL, "Rocq proof (invariant by induction over inserts, doubling-loop termination) + per-insert state correspondence"),
    "C17": _mt("Proved (partial by nature): the buffer invariant (16-byte granularity, bounds and data regions disjoint, n <= L/16) is preserved by every insert of any size, fits/remaining never underflow, the doubling loop terminates for every usize size, allocation sizes are the rounded sizes. Every run: overflow-checked build, buffer triple compared after every insert, tracking allocator checks dealloc layouts, chunk leak counter.", "DESIGN.md §5 C17", "Axioms: none. Not expressible: aliasing/lifetime soundness of unsafe code, allocator behaviour." + _PARTIAL, "Rocq proof (arithmetic invariant) + overflow-checked differential execution + layout-tracking allocator"),
    "C11": _mt("Proved for every benign schedule: write_all delivers exactly the buffer and counts exactly its length (C11_write_all); a whole writer run over a scheduled sink ends at the same call with the same bytes, count, emitted blocks and trailer as over a plain Vec (C11_write, by parametricity of the writer model in its sink); read_exact and read_to_end-over-Take return exactly the unscheduled bytes for any buffer sizes std offers (C11_read_exact, C11_read_to_end), hence every block load is schedule-independent (C11_block_load). Every run: writer under explicit schedules vs model (bytes and write-call sizes) and vs plain run; histories on all codecs, mergers, sorters under 4 schedules vs unscheduled.", "DESIGN.md §5 C11", "Axioms: none." + _PARTIAL, "Rocq proof (induction on fuel over schedules; relational parametricity of the writer in its sink) + scheduled-vs-plain differential execution"),
    "C12": _mt("Proved for the writer and every fault position: no fault armed => exactly the plain run (C12_quiet); fault armed => the injected error or the plain outcome with a file not reaching the fault position (C12_writer_fault); fault position inside the file or flush fault => Err carrying the injected error, never success, never panic (C12_writer_surface). Every run: exhaustive single-fault enumeration over writer bytes/flush, reader seeks/reads, sorter creates/merge calls/chunk I/O and merger source I/O: implementation vs model (failing call index and error class) and vs the specification (the call in progress when the fault fired returns that error).", "DESIGN.md §5 C12", "Axioms: none." + _PARTIAL, "Rocq proof (relational parametricity with early failure) + exhaustive fault enumeration against model and specification"),
    "C16": _mt("Proved: open consults only the last 22 bytes whatever the file size (C16_open_reads_only_the_trailer); every specified operation from every state of every well-formed store loads at most 2*(index_levels+2) blocks (C16_loads, from the refinement proof: each walk loads <= levels+2 blocks, LE is two walks), and so does every admissible history on a written file (C16_written_file_loads: n operations load at most n*2*(levels+2) blocks whatever the number of entries). Every run: block loads per operation counted by an instrumented source: implementation <= model <= 2*(levels+2).", "DESIGN.md §5 C16", "Axioms: none." + _PARTIAL, "Rocq proof (trailer locality; load bound from the cursor refinement) + per-operation I/O counting against the model and the bound"),
})
