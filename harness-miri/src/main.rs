//! C17 search support: the buffer-management and borrowed-slice paths of grenad on small inputs, meant to be
//! run under Miri.  Every observable is also checked against a plain sorted-map computation, so the program
//! fails (exit 1) on a wrong result as well as on undefined behaviour (Miri aborts).
use std::borrow::Cow;
use std::collections::BTreeMap;
use std::io::Cursor;

use grenad::{CompressionType, CursorVec, MergeFunction, Merger, Reader, Sorter, SorterBuilder, Writer};

#[derive(Clone, Copy)]
struct Concat;
impl MergeFunction for Concat {
    type Error = std::convert::Infallible;
    fn merge<'a>(&self, _key: &[u8], values: &[Cow<'a, [u8]>]) -> Result<Cow<'a, [u8]>, Self::Error> {
        if values.len() == 1 {
            return Ok(values[0].clone());
        }
        Ok(Cow::Owned(values.iter().flat_map(|v| v.iter().copied()).collect()))
    }
}

fn xorshift(x: &mut u64) -> u64 {
    *x ^= *x << 13;
    *x ^= *x >> 7;
    *x ^= *x << 17;
    *x
}

fn file_of(entries: &BTreeMap<Vec<u8>, Vec<u8>>, codec: CompressionType, levels: u8) -> Vec<u8> {
    let mut b = Writer::builder();
    b.compression_type(codec).index_levels(levels);
    #[cfg(grenad_verif)]
    b.verif_block_size_unclamped(48);
    let mut w = b.build(Vec::new());
    for (k, v) in entries {
        w.insert(k, v).unwrap();
    }
    w.into_inner().unwrap()
}

fn main() {
    // --small: the quick tier (fewer and smaller cases: Miri interprets about a hundred times slower)
    let small = std::env::args().any(|a| a == "--small");
    let mut seed = 0x9E3779B97F4A7C15u64;
    let mut fails = 0u32;
    // ---- sorter: inserts of every size relative to a tiny buffer (exact fill, repeated doubling, larger than
    // the buffer), spills, chunk merges, the three output routes
    for case in 0..(if small { 3u32 } else { 6 }) {
        let mut b = SorterBuilder::new(Concat);
        #[cfg(grenad_verif)]
        {
            b.verif_dump_threshold_unclamped(64 + 48 * case as usize);
            b.verif_initial_capacity(16 + 16 * (case as usize % 3));
            b.verif_block_size_unclamped(64);
        }
        b.allow_realloc(case % 2 == 0).max_nb_chunks(1 + case as usize % 3).index_levels((case % 2) as u8);
        let mut sorter: Sorter<Concat, CursorVec> = b.chunk_creator(CursorVec).build();
        let mut expect: BTreeMap<Vec<u8>, Vec<u8>> = BTreeMap::new();
        let n = if small { 22 + 4 * case } else { 40 + 10 * case };
        for i in 0..n {
            let r = xorshift(&mut seed);
            let klen = (r % 5) as usize;
            let vlen = match (r >> 8) % 7 { 0 => 0, 1 => 16, 2 => 32, 3 => 200, _ => ((r >> 16) % 24) as usize };
            let key: Vec<u8> = (0..klen).map(|j| ((r >> (j * 3)) % 3) as u8).collect();
            let val: Vec<u8> = (0..vlen).map(|j| (i as u8).wrapping_add(j as u8)).collect();
            sorter.insert(&key, &val).unwrap();
            expect.entry(key).or_default().extend_from_slice(&val);
        }
        let mut got: Vec<(Vec<u8>, Vec<u8>)> = Vec::new();
        match case % 3 {
            0 => {
                let mut it = sorter.into_stream_merger_iter().unwrap();
                while let Some((k, v)) = it.next().unwrap() {
                    got.push((k.to_vec(), v.to_vec()));
                }
            }
            1 => {
                let mut w = Writer::memory();
                sorter.write_into_stream_writer(&mut w).unwrap();
                let mut c = Reader::new(Cursor::new(w.into_inner().unwrap())).unwrap().into_cursor().unwrap();
                while let Some((k, v)) = c.move_on_next().unwrap() {
                    got.push((k.to_vec(), v.to_vec()));
                }
            }
            _ => {
                let cursors = sorter.into_reader_cursors().unwrap();
                let mut mb = Merger::builder(Concat);
                mb.extend(cursors);
                let mut it = mb.build().into_stream_merger_iter().unwrap();
                while let Some((k, v)) = it.next().unwrap() {
                    got.push((k.to_vec(), v.to_vec()));
                }
            }
        }
        let want: Vec<(Vec<u8>, Vec<u8>)> = expect.into_iter().collect();
        if got != want {
            println!("DIRECT fail miri-scenario: sorter case {}: {} entries out, {} expected", case, got.len(), want.len());
            fails += 1;
        }
    }
    // ---- readers: every cursor move, clones that outlive their original, the four iterators, borrowed
    // entries kept across moves (copied out first: the API hands out borrows tied to the cursor)
    let mut entries: BTreeMap<Vec<u8>, Vec<u8>> = BTreeMap::new();
    for i in 0..(if small { 22u32 } else { 60 }) {
        let r = xorshift(&mut seed);
        let key: Vec<u8> = (0..(1 + r % 4)).map(|j| ((r >> (j * 2)) % 4) as u8 * 85).collect();
        entries.insert(key, vec![i as u8; (r >> 20) as usize % 20]);
    }
    entries.insert(Vec::new(), Vec::new());
    let sorted: Vec<(Vec<u8>, Vec<u8>)> = entries.iter().map(|(k, v)| (k.clone(), v.clone())).collect();
    let all_cfgs = [(CompressionType::None, 2u8), (CompressionType::Snappy, 1), (CompressionType::None, 0)];
    for (codec, levels) in all_cfgs.into_iter().take(if small { 1 } else { 3 }) {
        let file = file_of(&entries, codec, levels);
        let mut c = Reader::new(Cursor::new(&file[..])).unwrap().into_cursor().unwrap();
        let mut fwd = Vec::new();
        while let Some((k, v)) = c.move_on_next().unwrap() {
            fwd.push((k.to_vec(), v.to_vec()));
        }
        let mut bwd = Vec::new();
        c.reset();
        while let Some((k, v)) = c.move_on_prev().unwrap() {
            bwd.push((k.to_vec(), v.to_vec()));
        }
        bwd.reverse();
        if fwd != sorted || bwd != sorted {
            println!("DIRECT fail miri-scenario: scan codec {:?} levels {}", codec, levels);
            fails += 1;
        }
        // seeks, current, clones
        for (k, _) in sorted.iter().step_by(7) {
            let mut probe = k.clone();
            probe.push(0);
            let ceil_i = sorted.iter().position(|(x, _)| x >= &probe);
            let floor_i = sorted.iter().rposition(|(x, _)| x <= &probe);
            let ge = c.move_on_key_greater_than_or_equal_to(&probe).unwrap().map(|(a, b)| (a.to_vec(), b.to_vec()));
            if ge != ceil_i.map(|i| sorted[i].clone()) {
                println!("DIRECT fail miri-scenario: ge");
                fails += 1;
            }
            let le = c.move_on_key_lower_than_or_equal_to(&probe).unwrap().map(|(a, b)| (a.to_vec(), b.to_vec()));
            if le != floor_i.map(|i| sorted[i].clone()) {
                println!("DIRECT fail miri-scenario: le");
                fails += 1;
            }
            // a clone taken at the floor, the original moved away and dropped, the clone cloned again and dropped
            let clone = c.clone();
            let eq = c.move_on_key_equal_to(k).unwrap().map(|(a, b)| (a.to_vec(), b.to_vec()));
            drop(c);
            let mut clone2 = clone.clone();
            if clone.current().map(|(a, b)| (a.to_vec(), b.to_vec())) != floor_i.map(|i| sorted[i].clone()) || eq.map(|e| e.0) != Some(k.clone()) {
                println!("DIRECT fail miri-scenario: clone current");
                fails += 1;
            }
            drop(clone);
            let nx = clone2.move_on_next().unwrap().map(|(a, b)| (a.to_vec(), b.to_vec()));
            if nx != floor_i.and_then(|i| sorted.get(i + 1).cloned()) {
                println!("DIRECT fail miri-scenario: clone next");
                fails += 1;
            }
            c = clone2;
        }
        // iterators
        let rd = || Reader::new(Cursor::new(&file[..])).unwrap();
        let p = vec![85u8];
        let want_p: Vec<_> = sorted.iter().filter(|(k, _)| k.starts_with(&p)).cloned().collect();
        let mut it = rd().into_prefix_iter(p.clone()).unwrap();
        let mut got = Vec::new();
        while let Some((k, v)) = it.next().unwrap() {
            got.push((k.to_vec(), v.to_vec()));
        }
        let mut rit = rd().into_rev_prefix_iter(p.clone()).unwrap();
        let mut rgot = Vec::new();
        while let Some((k, v)) = rit.next().unwrap() {
            rgot.push((k.to_vec(), v.to_vec()));
        }
        rgot.reverse();
        let lo = vec![0u8, 85];
        let hi = vec![170u8];
        let want_r: Vec<_> = sorted.iter().filter(|(k, _)| k > &lo && k <= &hi).cloned().collect();
        let mut r1 = rd().into_range_iter((std::ops::Bound::Excluded(lo.clone()), std::ops::Bound::Included(hi.clone()))).unwrap();
        let mut g1 = Vec::new();
        while let Some((k, v)) = r1.next().unwrap() {
            g1.push((k.to_vec(), v.to_vec()));
        }
        let mut r2 = rd().into_rev_range_iter((std::ops::Bound::Excluded(lo.clone()), std::ops::Bound::Included(hi.clone()))).unwrap();
        let mut g2 = Vec::new();
        while let Some((k, v)) = r2.next().unwrap() {
            g2.push((k.to_vec(), v.to_vec()));
        }
        g2.reverse();
        if got != want_p || rgot != want_p || g1 != want_r || g2 != want_r {
            println!("DIRECT fail miri-scenario: iterators codec {:?} levels {}", codec, levels);
            fails += 1;
        }
    }
    // ---- merger over files with overlapping keys, borrowed lone values
    let a = file_of(&entries, CompressionType::None, 1);
    let half: BTreeMap<Vec<u8>, Vec<u8>> = entries.iter().step_by(2).map(|(k, v)| (k.clone(), v.clone())).collect();
    let b2 = file_of(&half, CompressionType::Snappy, 0);
    let mut mb = Merger::builder(Concat);
    mb.push(Reader::new(Cursor::new(a)).unwrap().into_cursor().unwrap());
    mb.push(Reader::new(Cursor::new(b2)).unwrap().into_cursor().unwrap());
    let mut it = mb.build().into_stream_merger_iter().unwrap();
    let mut n = 0usize;
    while let Some((k, v)) = it.next().unwrap() {
        let mut want = entries[k].clone();
        if let Some(x) = half.get(k) {
            want.extend_from_slice(x);
        }
        if v != &want[..] {
            println!("DIRECT fail miri-scenario: merge value");
            fails += 1;
        }
        n += 1;
    }
    if n != entries.len() {
        println!("DIRECT fail miri-scenario: merge count");
        fails += 1;
    }
    println!("MIRI-SCENARIO done fails={}", fails);
    if fails > 0 {
        std::process::exit(1);
    }
}
