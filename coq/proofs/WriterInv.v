(* The writer only ever feeds its block writers (data and index) through bw_insert and reset,
   flushes a data block or an index block of level >= 2 exactly when its size estimate reaches the
   block size, and never otherwise.  Consequences: every emitted block has strictly ascending keys
   or the run panicked (C18); every emitted data block / index block of level >= 2 was below the
   block size before its last insert, and those emitted by an insert have reached it (C15). *)
From Coq Require Import Lia ZArith ZifyN ZifyBool ZifyNat.
From Grenad.model Require Import Base Varint Block Trailer Writer Spec Format.
From Grenad.proofs Require Import BaseProofs BlockProofs FormatProofs.
Ltac Zify.zify_post_hook ::= Z.div_mod_to_equations.

Arguments w_data {SK} _. Arguments w_idx {SK} _. Arguments w_count {SK} _.
Arguments w_sink {SK} _. Arguments w_log {SK} _. Arguments mk_wstate {SK} _ _ _ _ _.

Definition bwE (w : bw) : Prop := exists es, bw_ok w es.
Definition below (c : wcfg) (w : bw) : Prop := bw_size w < wc_block_size c.
(* w results from one insert into a legal block that was below the block size *)
Definition justins (c : wcfg) (w : bw) : Prop :=
  exists w0 es k v, bw_ok w0 es /\ below c w0 /\ bw_insert w0 k v = Done w.

(* a level that is cut: data blocks (levels + 1) and index blocks of level >= 2 *)
Definition cut_level (c : wcfg) (lvl : N) : Prop := lvl = wc_levels c + 1 \/ 2 <= lvl.

(* an emitted block is the finish of a legal block writer ... *)
Definition em_legal (e : emitted) : Prop := exists w es, bw_ok w es /\ bw_finish w = Done (em_bytes e).
(* ... which, at a cut level, was below the block size before its last insert *)
Definition em_cut (c : wcfg) (e : emitted) : Prop :=
  cut_level c (em_level e) ->
  exists w es, bw_ok w es /\ bw_finish w = Done (em_bytes e) /\ (below c w \/ justins c w).
(* emitted by an insert: it has reached the block size *)
Definition em_full (c : wcfg) (e : emitted) : Prop :=
  cut_level c (em_level e) -> wc_block_size c <= len (em_bytes e).

Lemma bw_new_size i : bw_size (bw_new i) = 12. Proof. reflexivity. Qed.
Lemma bw_reset_ok w : bw_ok (bw_reset w) []. Proof. apply bw_new_ok. Qed.

Lemma bw_last_none w es : bw_ok w es -> bw_last w = None -> bw_size w = 12.
Proof.
  intros [_ Hlen Hlast Hno Htr _ _] Hn. rewrite Hlast in Hn.
  destruct es as [|e es]; [|exfalso].
  - cbn [bw_track] in Htr. injection Htr as H1 H2 H3. unfold bw_size. rewrite Hno, <- H3, <- H1. reflexivity.
  - destruct (last_opt (e :: es)) eqn:E; [discriminate|].
    clear - E. revert e E. induction es as [|x es IH]; intros e E; [discriminate|]. cbn [last_opt] in E. eapply IH. exact E.
Qed.

Lemma bw_insert_E w k v w' : bwE w -> bw_insert w k v = Done w' -> bwE w'.
Proof.
  intros [es Hok] H. destruct (bw_insert_spec w es k v Hok) as [Hgood Hbad].
  set (cond := entry_ok (k, v) /\ match last_opt es with Some (lk, _) => bytes_ltb lk k = true | None => True end) in *.
  assert (Dec : cond \/ ~ cond).
  { unfold cond, entry_ok. cbn [fst snd].
    destruct (N.leb_spec (len k) U32_MAX); [|right; intros [[? ?] ?]; lia].
    destruct (N.leb_spec (len v) U32_MAX); [|right; intros [[? ?] ?]; lia].
    destruct (last_opt es) as [[lk lv]|]; [|left; auto].
    destruct (bytes_ltb lk k); [left; auto | right; intros [_ ?]; discriminate]. }
  destruct Dec as [Hc|Hc].
  - destruct (Hgood Hc) as (w1 & E1 & Hok1 & _). rewrite E1 in H. injection H as <-. eexists; exact Hok1.
  - rewrite (Hbad Hc) in H. discriminate.
Qed.

Section Inv.
  Variable SK : Type.
  Variable wr : SK -> bytes -> outcome SK.
  Variable fl : SK -> outcome SK.
  Variable cnt : SK -> N.
  Variable compress : N -> N -> bytes -> outcome bytes.
  Variable c : wcfg.
  Hypothesis HB : 12 < wc_block_size c.

  (* the pending index blocks, deepest first: element j has tree level lvl - 1 - j *)
  Fixpoint upinv (lvl : N) (up : list bw) : Prop :=
    match up with
    | [] => True
    | p :: up' => bwE p /\ (2 <= lvl - 1 -> below c p) /\ upinv (lvl - 1) up'
    end.

  Lemma upinv_app lvl a b : upinv lvl (a ++ b) <-> upinv lvl a /\ upinv (lvl - len a) b.
  Proof.
    revert lvl; induction a as [|x a IH]; intro lvl; cbn [app upinv].
    - change (len (@nil bw)) with 0. replace (lvl - 0) with lvl by lia. tauto.
    - rewrite IH, len_cons. replace (lvl - 1 - len a) with (lvl - (len a + 1)) by lia. tauto.
  Qed.

  Definition log_ok (lg : list emitted) : Prop := Forall em_legal lg /\ Forall (em_cut c) lg.

  (* cwb: emits the finish of the given block and resets it *)
  Lemma cwb_spec s w lvl s' w' e :
    cwb SK wr cnt compress c s w lvl = Done (s', w', e) ->
    bw_finish w = Done (em_bytes e) /\ em_level e = lvl /\ w' = bw_reset w.
  Proof.
    unfold cwb. destruct (bw_finish w) as [buffer| |]; cbn [bind]; try discriminate.
    destruct (compress _ _ buffer) as [comp| |]; cbn [bind]; try discriminate.
    destruct (wr s _) as [s1| |]; cbn [bind]; try discriminate.
    destruct (wr s1 comp) as [s2| |]; cbn [bind]; try discriminate.
    intro H. injection H as <- <- <-. cbn [em_bytes em_level]. auto.
  Qed.

  Definition pend (lvl : N) (w : bw) : Prop := bwE w /\ (2 <= lvl -> below c w \/ justins c w).

  Lemma em_of_pending lvl cur e :
    pend lvl cur -> bw_finish cur = Done (em_bytes e) -> em_level e = lvl ->
    (cut_level c lvl -> 2 <= lvl) -> em_legal e /\ em_cut c e.
  Proof.
    intros [[es Hok] Hc] Hf Hl Hcl. split.
    - exists cur, es. auto.
    - intro Hcut. rewrite Hl in Hcut. exists cur, es. split; [exact Hok|]. split; [exact Hf|]. apply Hc. apply Hcl. exact Hcut.
  Qed.

  Lemma cascade_inv : forall up s lg cur lvl s' lg' blocks,
    cascade_from SK wr cnt compress c s lg cur lvl up = Done (s', lg', blocks) ->
    lvl = len up + 1 -> lvl <= wc_levels c ->
    pend lvl cur -> upinv lvl up -> log_ok lg ->
    upinv (lvl + 1) blocks /\ length blocks = S (length up) /\ log_ok lg' /\
    exists new, lg' = new ++ lg /\ Forall (em_full c) new.
  Proof.
    induction up as [|parent up IH]; intros s lg cur lvl s' lg' blocks H Hlvl HL Hcur Hup Hlg; cbn [cascade_from] in H.
    - injection H as <- <- <-. destruct Hcur as [He Hc]. cbn [upinv length].
      change (len (@nil bw)) with 0 in Hlvl.
      split; [split; [exact He|]; split; [intro; lia|exact I]|].
      split; [reflexivity|]. split; [exact Hlg|]. exists []. split; [reflexivity|constructor].
    - rewrite len_cons in Hlvl. cbn [upinv] in Hup. destruct Hup as (Hpe & Hpb & Hup').
      destruct (N.leb_spec (wc_block_size c) (bw_size cur)) as [Hge|Hlt].
      + destruct (bw_last cur) as [lk|] eqn:El.
        * destruct (bw_insert parent lk (be_bytes 8 (cnt s))) as [parent'| |] eqn:Ep; cbn [bind] in H; try discriminate.
          destruct (cwb SK wr cnt compress c s cur lvl) as [[[s1 cur'] e]| |] eqn:Ec; cbn [bind] in H; try discriminate.
          destruct (cascade_from SK wr cnt compress c s1 (e :: lg) parent' (lvl - 1) up) as [[[s2 lg2] ups]| |] eqn:Er; cbn [bind] in H; try discriminate.
          injection H as <- <- <-.
          apply cwb_spec in Ec. destruct Ec as (Hf & Hel & Hcur').
          destruct (em_of_pending lvl cur e Hcur Hf Hel ltac:(intros _; lia)) as [Hleg Hcutt].
          assert (Hpend' : pend (lvl - 1) parent').
          { split; [exact (bw_insert_E parent _ _ parent' Hpe Ep)|]. intro H2. right.
            destruct Hpe as [pes Hpok]. exists parent, pes, lk, (be_bytes 8 (cnt s)). split; [exact Hpok|]. split; [apply Hpb; exact H2|exact Ep]. }
          destruct (IH s1 (e :: lg) parent' (lvl - 1) s2 lg2 ups Er ltac:(lia) ltac:(lia) Hpend' Hup'
                       ltac:(destruct Hlg; split; constructor; assumption)) as (I1 & I2 & I3 & new & I4 & I5).
          replace (lvl - 1 + 1) with lvl in I1 by lia.
          split; [cbn [upinv]; replace (lvl + 1 - 1) with lvl by lia; split; [subst cur'; eexists; apply bw_reset_ok|]; split; [intros _; subst cur'; unfold below, bw_reset; rewrite bw_new_size; exact HB | exact I1]|].
          split; [cbn [length]; rewrite I2; reflexivity|]. split; [exact I3|].
          exists (new ++ [e]). split; [rewrite <- app_assoc; exact I4|].
          apply Forall_app. split; [exact I5|]. constructor; [|constructor].
          intros _. destruct Hcur as [[es Hok] _]. rewrite (bw_size_exact cur es _ Hok Hf). exact Hge.
        * (* an empty block has size 12 < B: this branch cannot be reached *)
          destruct Hcur as [[es Hok] _]. rewrite (bw_last_none cur es Hok El) in Hge. lia.
      + destruct (cascade_from SK wr cnt compress c s lg parent (lvl - 1) up) as [[[s2 lg2] ups]| |] eqn:Er; cbn [bind] in H; try discriminate.
        injection H as <- <- <-.
        assert (Hpend' : pend (lvl - 1) parent) by (split; [exact Hpe|]; intro H2; left; apply Hpb; exact H2).
        destruct (IH s lg parent (lvl - 1) s2 lg2 ups Er ltac:(lia) ltac:(lia) Hpend' Hup' Hlg) as (I1 & I2 & I3 & new & I4 & I5).
        replace (lvl - 1 + 1) with lvl in I1 by lia.
        split; [cbn [upinv]; replace (lvl + 1 - 1) with lvl by lia; split; [exact (proj1 Hcur)|]; split; [intros _; exact Hlt | exact I1]|].
        split; [cbn [length]; rewrite I2; reflexivity|]. split; [exact I3|]. exists new. split; [exact I4|exact I5].
  Qed.

  Notation L := (wc_levels c).

  Definition wst_inv (st : wstate SK) : Prop :=
    bwE (w_data st) /\ below c (w_data st) /\ upinv (L + 1) (rev (w_idx st)) /\
    len (w_idx st) = L + 1 /\ log_ok (w_log st).

  Lemma rev_cons_split {A} (x : A) l root sl :
    rev (x :: l) = root :: sl ->
    (l = [] /\ root = x /\ sl = []) \/ (exists up, l = up ++ [root] /\ rev sl = x :: up).
  Proof.
    cbn [rev]. destruct (rev l) as [|r mid] eqn:E; cbn [app]; intro H.
    - left. injection H as <- <-. apply (f_equal (@rev A)) in E. rewrite rev_involutive in E. auto.
    - right. injection H as <- <-. exists (rev mid). split.
      + apply (f_equal (@rev A)) in E. rewrite rev_involutive in E. exact E.
      + rewrite rev_app_distr. reflexivity.
  Qed.

  Lemma w_insert_inv st k v st' :
    w_insert SK wr cnt compress c st k v = Done st' -> wst_inv st ->
    wst_inv st' /\ exists new, w_log st' = new ++ w_log st /\ Forall (em_full c) new.
  Proof.
    intros H (Hde & Hdb & Hidx & Hlen & Hlg). unfold w_insert in H.
    destruct (bw_insert (w_data st) k v) as [d| |] eqn:Ed; cbn [bind] in H; try discriminate.
    assert (HdE : bwE d) by (exact (bw_insert_E (w_data st) k v d Hde Ed)).
    destruct (N.leb_spec (wc_block_size c) (bw_size d)) as [Hge|Hlt].
    2:{ injection H as <-. cbn [w_data w_idx w_log]. split; [|exists []; split; [reflexivity|constructor]].
        unfold wst_inv; cbn [w_data w_idx w_log]. auto. }
    destruct (bw_last d) as [last_key|] eqn:El.
    2:{ destruct HdE as [es Hok]. rewrite (bw_last_none d es Hok El) in Hge. lia. }
    destruct (rev (w_idx st)) as [|deepest above] eqn:Er.
    { apply (f_equal (@length bw)) in Er. rewrite rev_length in Er. rewrite len_length in Hlen. cbn [length] in Er. lia. }
    cbn [upinv] in Hidx. destruct Hidx as (Hpe & Hpb & Habove). replace (L + 1 - 1) with L in * by lia.
    destruct (bw_insert deepest last_key (be_bytes 8 (cnt (w_sink st)))) as [deepest'| |] eqn:Ep; cbn [bind] in H; try discriminate.
    destruct (cwb SK wr cnt compress c (w_sink st) d (L + 1)) as [[[s1 d'] e]| |] eqn:Ec; cbn [bind] in H; try discriminate.
    apply cwb_spec in Ec. destruct Ec as (Hf & Hel & Hd').
    (* the data block just emitted *)
    assert (Hjd : justins c d).
    { destruct Hde as [des Hdok]. exists (w_data st), des, k, v. auto. }
    assert (Hleg : em_legal e) by (destruct HdE as [es Hok]; exists d, es; auto).
    assert (Hcut : em_cut c e) by (intros _; destruct HdE as [es Hok]; exists d, es; auto).
    assert (Hfull : em_full c e) by (intros _; destruct HdE as [es Hok]; rewrite (bw_size_exact d es _ Hok Hf); exact Hge).
    assert (Hlg1 : log_ok (e :: w_log st)) by (destruct Hlg; split; constructor; assumption).
    assert (Hd'ok : bwE d' /\ below c d').
    { subst d'. split; [eexists; apply bw_reset_ok|]. unfold below, bw_reset. rewrite bw_new_size. exact HB. }
    assert (Hlen_above : len above = L).
    { apply (f_equal (@length bw)) in Er. rewrite rev_length in Er. cbn [length] in Er. rewrite len_length in *. lia. }
    destruct (rev (deepest' :: above)) as [|root sl] eqn:Er2; [discriminate|].
    apply rev_cons_split in Er2. destruct Er2 as [(Ea & Eroot & Esl)|(up & Ea & Esl)].
    - subst above sl root. cbn [rev] in H. injection H as <-.
      change (len (@nil bw)) with 0 in Hlen_above.
      split; [|exists [e]; split; [reflexivity|constructor; [exact Hfull|constructor]]].
      unfold wst_inv; cbn [w_data w_idx w_log rev app upinv].
      split; [exact (proj1 Hd'ok)|]. split; [exact (proj2 Hd'ok)|].
      split; [split; [exact (bw_insert_E deepest _ _ deepest' Hpe Ep)|]; split; [intro; lia|exact I]|].
      split; [rewrite len_cons; change (len (@nil bw)) with 0; lia | exact Hlg1].
    - rewrite Esl in H.
      destruct (cascade_from SK wr cnt compress c s1 (e :: w_log st) deepest' L up) as [[[s2 lg2] blocks]| |] eqn:Ecas; cbn [bind] in H; try discriminate.
      injection H as <-.
      subst above. rewrite len_app, len_cons in Hlen_above. change (len (@nil bw)) with 0 in Hlen_above.
      apply upinv_app in Habove. destruct Habove as [Hup Hroot]. cbn [upinv] in Hroot. destruct Hroot as (HrootE & _ & _).
      assert (Hpend : pend L deepest').
      { split; [exact (bw_insert_E deepest _ _ deepest' Hpe Ep)|]. intro H2. right. destruct Hpe as [pes Hpok].
        exists deepest, pes, last_key, (be_bytes 8 (cnt (w_sink st))). split; [exact Hpok|]. split; [apply Hpb; exact H2|exact Ep]. }
      destruct (cascade_inv up s1 (e :: w_log st) deepest' L s2 lg2 blocks Ecas ltac:(lia) ltac:(lia) Hpend Hup Hlg1)
        as (I1 & I2 & I3 & new & I4 & I5).
      split.
      + unfold wst_inv; cbn [w_data w_idx w_log rev].
        split; [exact (proj1 Hd'ok)|]. split; [exact (proj2 Hd'ok)|].
        rewrite rev_involutive. split; [apply upinv_app; split; [exact I1|]; cbn [upinv]; split; [exact HrootE|]; split; [|exact I]|].
        * intro Hx. exfalso. assert (Hbl : len blocks = L) by (rewrite len_length, I2; rewrite len_length in Hlen_above; lia). lia.
        * split; [rewrite len_cons, len_length, rev_length, I2; rewrite len_length in Hlen_above; lia | exact I3].
      + cbn [w_log]. exists (new ++ [e]). split; [rewrite <- app_assoc; exact I4|].
        apply Forall_app; split; [exact I5|constructor; [exact Hfull|constructor]].
  Qed.

  (* the bottom-up flush of into_inner *)
  Lemma flush_inv : forall up s lg cur lvl s' lg' off,
    flush_from SK wr cnt compress c s lg cur lvl up = Done (s', lg', off) ->
    lvl = len up -> lvl <= L -> pend lvl cur -> upinv lvl up -> log_ok lg -> log_ok lg'.
  Proof.
    induction up as [|parent up IH]; intros s lg cur lvl s' lg' off H Hlvl HL Hcur Hup Hlg; cbn [flush_from] in H.
    - change (len (@nil bw)) with 0 in Hlvl.
      destruct (bw_last cur) as [lk|];
        (destruct (cwb SK wr cnt compress c s cur lvl) as [[[s1 cur'] e]| |] eqn:Ec; cbn [bind] in H; try discriminate;
         injection H as <- <- <-; apply cwb_spec in Ec; destruct Ec as (Hf & Hel & _);
         destruct (em_of_pending lvl cur e Hcur Hf Hel ltac:(unfold cut_level; intros [?|?]; lia)) as [A B];
         destruct Hlg; split; constructor; assumption).
    - rewrite len_cons in Hlvl. cbn [upinv] in Hup. destruct Hup as (Hpe & Hpb & Hup').
      destruct (bw_last cur) as [lk|].
      + destruct (bw_insert parent lk (be_bytes 8 (cnt s))) as [parent'| |] eqn:Ep; cbn [bind] in H; try discriminate.
        destruct (cwb SK wr cnt compress c s cur lvl) as [[[s1 cur'] e]| |] eqn:Ec; cbn [bind] in H; try discriminate.
        apply cwb_spec in Ec. destruct Ec as (Hf & Hel & _).
        destruct (em_of_pending lvl cur e Hcur Hf Hel ltac:(unfold cut_level; intros [?|?]; lia)) as [A B].
        eapply (IH s1 (e :: lg) parent' (lvl - 1)); [exact H | lia | lia | | exact Hup' | destruct Hlg; split; constructor; assumption].
        split; [exact (bw_insert_E parent _ _ parent' Hpe Ep)|]. intro H2. right. destruct Hpe as [pes Hpok].
        exists parent, pes, lk, (be_bytes 8 (cnt s)). split; [exact Hpok|]. split; [apply Hpb; exact H2|exact Ep].
      + eapply (IH s lg parent (lvl - 1)); [exact H | lia | lia | | exact Hup' | exact Hlg].
        split; [exact Hpe|]. intro H2. left. apply Hpb. exact H2.
  Qed.

  Lemma w_finish_inv st s lg m :
    w_finish SK wr fl cnt compress c st = Done (s, lg, m) -> wst_inv st -> log_ok lg.
  Proof.
    intros H (Hde & Hdb & Hidx & Hlen & Hlg). unfold w_finish in H.
    (* the pending data block *)
    assert (Step1 : forall s1 lg1 idx1,
      (match bw_last (w_data st) with
       | Some last_key =>
         match rev (w_idx st) with
         | [] => Done (w_sink st, w_log st, w_idx st)
         | deepest :: above =>
           do deepest' <- bw_insert deepest last_key (be_bytes 8 (cnt (w_sink st)));
           do r <- cwb SK wr cnt compress c (w_sink st) (w_data st) (L + 1);
           let '(s1, _, e) := r in Done (s1, e :: w_log st, rev (deepest' :: above))
         end
       | None => Done (w_sink st, w_log st, w_idx st)
       end) = Done (s1, lg1, idx1) ->
      log_ok lg1 /\ len idx1 = L + 1 /\
      exists cur up, rev idx1 = cur :: up /\ pend L cur /\ upinv L up).
    { intros s1 lg1 idx1 E.
      destruct (rev (w_idx st)) as [|deepest above] eqn:Er.
      { apply (f_equal (@length bw)) in Er. rewrite rev_length in Er. rewrite len_length in Hlen. cbn [length] in Er. lia. }
      cbn [upinv] in Hidx. destruct Hidx as (Hpe & Hpb & Habove). replace (L + 1 - 1) with L in * by lia.
      destruct (bw_last (w_data st)) as [last_key|].
      - destruct (bw_insert deepest last_key (be_bytes 8 (cnt (w_sink st)))) as [deepest'| |] eqn:Ep; cbn [bind] in E; try discriminate.
        destruct (cwb SK wr cnt compress c (w_sink st) (w_data st) (L + 1)) as [[[s2 d'] e]| |] eqn:Ec; cbn [bind] in E; try discriminate.
        injection E as <- <- <-. apply cwb_spec in Ec. destruct Ec as (Hf & Hel & _).
        split; [|split].
        + destruct Hde as [es Hok]. destruct Hlg. split; constructor; try assumption.
          * exists (w_data st), es. auto.
          * intros _. exists (w_data st), es. auto.
        + rewrite len_length. cbn [rev]. rewrite ?app_length, ?rev_length. cbn [length]. apply (f_equal (@length bw)) in Er. rewrite rev_length in Er. cbn [length] in Er.
          rewrite len_length in Hlen. lia.
        + exists deepest', above. split; [first [apply rev_involutive | rewrite rev_app_distr, rev_involutive; reflexivity]|]. split; [|exact Habove].
          split; [exact (bw_insert_E deepest _ _ deepest' Hpe Ep)|]. intro H2. right. destruct Hpe as [pes Hpok].
          exists deepest, pes, last_key, (be_bytes 8 (cnt (w_sink st))). split; [exact Hpok|]. split; [apply Hpb; exact H2|exact Ep].
      - injection E as <- <- <-. split; [exact Hlg|]. split; [exact Hlen|].
        exists deepest, above. split; [exact Er|]. split; [|exact Habove]. split; [exact Hpe|]. intro H2. left. apply Hpb. exact H2. }
    match type of H with bind ?X _ = _ => destruct X as [[[s1 lg1] idx1]| |] eqn:E1; cbn [bind] in H; try discriminate end.
    destruct (Step1 s1 lg1 idx1 eq_refl) as (Hlg1 & Hlen1 & cur & up & Er1 & Hpend & Hup).
    rewrite Er1 in H.
    destruct (flush_from SK wr cnt compress c s1 lg1 cur L up) as [[[s2 lg2] root_off]| |] eqn:Ef; cbn [bind] in H; try discriminate.
    assert (Hlup : L = len up).
    { apply (f_equal (@length bw)) in Er1. rewrite rev_length in Er1. cbn [length] in Er1. rewrite len_length in *. lia. }
    pose proof (flush_inv up s1 lg1 cur L s2 lg2 root_off Ef Hlup ltac:(lia) Hpend Hup Hlg1) as Hlg2.
    repeat (match type of H with bind ?X _ = _ => destruct X as [?| |]; cbn [bind] in H; try discriminate end).
    injection H as _ <- _. exact Hlg2.
  Qed.

  Lemma repeat_rev {A} (x : A) n : rev (repeat x n) = repeat x n.
  Proof.
    induction n as [|n IH]; [reflexivity|]. cbn [repeat rev]. rewrite IH.
    clear IH. induction n as [|n IH]; [reflexivity|]. cbn [repeat app]. rewrite IH. reflexivity.
  Qed.

  Lemma upinv_repeat lvl n i : upinv lvl (repeat (bw_new i) n).
  Proof.
    revert lvl; induction n as [|n IH]; intro lvl; cbn [repeat upinv]; [exact I|].
    split; [eexists; apply bw_new_ok|]. split; [intros _; unfold below; rewrite bw_new_size; exact HB|apply IH].
  Qed.

  Lemma w_new_inv s : L < 256 -> wst_inv (w_new SK c s).
  Proof.
    intro HL. unfold wst_inv, w_new; cbn [w_data w_idx w_log].
    split; [eexists; apply bw_new_ok|]. split; [unfold below; rewrite bw_new_size; exact HB|].
    split; [rewrite repeat_rev; apply upinv_repeat|].
    split; [rewrite len_length, repeat_length; lia|]. split; constructor.
  Qed.

  Lemma w_inserts_at_inv : forall es st i j st',
    w_inserts_at SK wr cnt compress c st es i = (j, Done st') -> wst_inv st -> Forall (em_full c) (w_log st) ->
    wst_inv st' /\ Forall (em_full c) (w_log st').
  Proof.
    induction es as [|[k v] es IH]; intros st i j st' H Hinv Hfull; cbn [w_inserts_at] in H.
    - injection H as _ <-. auto.
    - destruct (w_insert SK wr cnt compress c st k v) as [st1| |] eqn:E; try discriminate.
      destruct (w_insert_inv st k v st1 E Hinv) as (Hinv1 & new & Hl & Hn).
      eapply IH; [exact H | exact Hinv1 |]. rewrite Hl. apply Forall_app. auto.
  Qed.

  (* the whole run: every emitted block is the finish of a legal block writer, and at cut levels was
     below the block size before its last insert *)
  Theorem w_run_gen_blocks s0 es i s lg m :
    L < 256 -> w_run_gen SK wr fl cnt compress c s0 es = (i, Done (s, lg, m)) ->
    Forall em_legal lg /\ Forall (em_cut c) lg.
  Proof.
    intros HL H. unfold w_run_gen in H.
    destruct (w_inserts_at SK wr cnt compress c (w_new SK c s0) es 0) as [j [st| |]] eqn:E; try (injection H as _ H; discriminate).
    injection H as _ H.
    destruct (w_inserts_at_inv es _ 0 j st E (w_new_inv s0 HL) ltac:(constructor)) as [Hinv _].
    exact (w_finish_inv st s lg m H Hinv).
  Qed.

  (* the blocks emitted by inserts (i.e. all but the last of each level) have reached the block size *)
  Theorem w_inserts_blocks_full s0 es j st :
    L < 256 -> w_inserts_at SK wr cnt compress c (w_new SK c s0) es 0 = (j, Done st) ->
    Forall (em_full c) (w_log st) /\ Forall em_legal (w_log st) /\ Forall (em_cut c) (w_log st).
  Proof.
    intros HL E.
    destruct (w_inserts_at_inv es _ 0 j st E (w_new_inv s0 HL) ltac:(constructor)) as [(_ & _ & _ & _ & [A B]) F]. auto.
  Qed.
End Inv.

(* what a legal emitted block decodes to *)
Lemma em_legal_decodes e : em_legal e -> len (em_bytes e) < 2^64 ->
  exists b es, parse_block (em_bytes e) = Done b /\ block_entries b = Done (with_starts es 0) /\
               block_sorted (with_starts es 0) = true.
Proof.
  intros (w & es & Hok & Hf) H64.
  assert (Hl : bw_len w < 2^64).
  { rewrite (bw_size_exact w es _ Hok Hf) in H64. unfold bw_size in H64. lia. }
  destruct (finished_block_decodes w es _ Hok Hl Hf) as (b & Hp & Hb).
  exists b, es. split; [exact Hp|]. split; [exact Hb|]. eapply finished_block_sorted. exact Hok.
Qed.

(* ---- w_run (plain Vec sink, as executed by the correspondence) in terms of w_run_gen ---- *)
Lemma w_inserts_vs_at SK wr cnt compress c : forall es st i,
  match w_inserts SK wr cnt compress c st es i with
  | inl o => exists j, w_inserts_at SK wr cnt compress c st es i = (j, o) /\ o <> Panic
  | inr j => w_inserts_at SK wr cnt compress c st es i = (j, Panic)
  end.
Proof.
  induction es as [|[k v] es IH]; intros st i; cbn [w_inserts w_inserts_at].
  - exists i. split; [reflexivity|discriminate].
  - destruct (w_insert SK wr cnt compress c st k v) as [st'| |e].
    + apply IH.
    + reflexivity.
    + exists i. split; [reflexivity|discriminate].
Qed.

Lemma w_run_file compress c es f log m :
  w_run compress c es = WFile f log m ->
  exists i s lg, w_run_gen vsink vs_wr vs_fl vs_count compress c vs_empty es = (i, Done (s, lg, m)) /\
                 f = vs_bytes s /\ log = rev lg.
Proof.
  unfold w_run, w_run_gen. intro H.
  pose proof (w_inserts_vs_at vsink vs_wr vs_count compress c es (w_new vsink c vs_empty) 0) as K.
  destruct (w_inserts vsink vs_wr vs_count compress c (w_new vsink c vs_empty) es 0) as [[st| |e]|j]; try discriminate.
  destruct K as (j & Ej & _). rewrite Ej.
  destruct (w_finish vsink vs_wr vs_fl vs_count compress c st) as [[[s lg] m']| |]; try discriminate.
  injection H as <- <- <-. exists j, s, lg. auto.
Qed.

(* C18 / C15 for the runs the correspondence executes *)
Theorem w_run_blocks compress c es f log m :
  12 < wc_block_size c -> wc_levels c < 256 -> w_run compress c es = WFile f log m ->
  Forall em_legal log /\ Forall (em_cut c) log.
Proof.
  intros HB HL H. apply w_run_file in H. destruct H as (i & s & lg & E & _ & ->).
  destruct (w_run_gen_blocks vsink vs_wr vs_fl vs_count compress c HB vs_empty es i s lg m HL E) as [A B].
  split; apply Forall_rev; assumption.
Qed.
