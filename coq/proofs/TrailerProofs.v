(* Proofs about model/Trailer.v: a trailer written by Metadata::write_into is read back by
   Metadata::read_from whatever precedes it; opening never panics; opening succeeds exactly
   on strings that end in a valid trailer. *)
From Coq Require Import Lia ZArith ZifyN ZifyBool ZifyNat.
From Grenad.gen Require Import Consts.
From Grenad.model Require Import Base Trailer.
From Grenad.proofs Require Import BaseProofs.
Ltac Zify.zify_post_hook ::= Z.div_mod_to_equations.

Lemma seek_end_app pre suf : seek_end (pre ++ suf) (len suf) = Done (len pre).
Proof.
  unfold seek_end. rewrite len_app.
  destruct (N.ltb_spec (len pre + len suf) (len suf)); [lia|]. f_equal. lia.
Qed.

Lemma read_at_app pre x post :
  read_exact_at (pre ++ x ++ post) (len pre) (len x) = Done (x, len pre + len x).
Proof.
  unfold read_exact_at. rewrite !len_app.
  destruct (N.ltb_spec (len pre + (len x + len post)) (len pre + len x)); [lia|].
  rewrite skipnN_app, firstnN_app. reflexivity.
Qed.

Lemma len_le_bytes n x : len (le_bytes n x) = N.of_nat n.
Proof. rewrite len_length, le_bytes_length. reflexivity. Qed.

Definition wf_meta (m : meta) : Prop :=
  m_root m < 2^64 /\ m_count m < 2^64 /\ m_codec m <= 5 /\ m_levels m < 256 /\
  (m_version m = FormatV1 -> m_levels m = 0).

Lemma open_written body m : wf_meta m -> open_meta (body ++ trailer_bytes m) = Done m.
Proof.
  intros (Hr & Hc & Hk & Hl & Hv). destruct m as [ver root codec count levels]; cbn [m_root m_count m_codec m_levels m_version] in *.
  assert (P64 : 256 ^ N.of_nat 8 = 2^64) by reflexivity.
  assert (Eroot : le_decode (le_bytes 8 root) = root) by (rewrite le_decode_bytes, P64; apply N.mod_small; exact Hr).
  assert (Ecount : le_decode (le_bytes 8 count) = count) by (rewrite le_decode_bytes, P64; apply N.mod_small; exact Hc).
  assert (Ecodec : le_decode [u8 codec] = codec).
  { unfold le_decode, u8. cbn [fold_right]. assert (codec mod 256 = codec) by (apply N.mod_small; lia). lia. }
  assert (Eknown : codec_known codec = true).
  { unfold codec_known. change CODEC_ID_MAX with 5. apply N.leb_le. exact Hk. }
  destruct ver; unfold open_meta, trailer_bytes; cbn [m_version m_root m_codec m_count m_levels].
  - (* V1 *)
    specialize (Hv eq_refl). subst levels.
    set (R := le_bytes 8 root). set (C := le_bytes 8 count). set (M := le_bytes 4 MAGIC_V1).
    assert (LR : len R = 8) by apply len_le_bytes. assert (LC : len C = 8) by apply len_le_bytes.
    assert (LM : len M = 4) by apply len_le_bytes.
    (* magic *)
    replace (body ++ R ++ [u8 codec] ++ C ++ M) with ((body ++ R ++ [u8 codec] ++ C) ++ M) by (rewrite <- !app_assoc; reflexivity).
    rewrite <- LM at 1. rewrite seek_end_app. cbn [bind].
    replace ((body ++ R ++ [u8 codec] ++ C) ++ M) with ((body ++ R ++ [u8 codec] ++ C) ++ M ++ []) by (rewrite app_nil_r; reflexivity).
    rewrite <- LM at 1. rewrite read_at_app. cbn [bind fst snd].
    change (le_decode M =? MAGIC_V1) with true. cbn iota.
    (* record *)
    rewrite app_nil_r.
    replace ((body ++ R ++ [u8 codec] ++ C) ++ M) with (body ++ (R ++ [u8 codec] ++ C ++ M)) by (rewrite <- !app_assoc; reflexivity).
    assert (LT : METADATA_V1_SIZE + 4 = len (R ++ [u8 codec] ++ C ++ M)).
    { rewrite !len_app, LR, LC, LM. reflexivity. }
    rewrite LT, seek_end_app. cbn [bind].
    rewrite <- LR at 1. rewrite read_at_app. cbn [bind fst snd].
    replace (body ++ R ++ [u8 codec] ++ C ++ M) with ((body ++ R) ++ [u8 codec] ++ (C ++ M)) by (rewrite <- !app_assoc; reflexivity).
    replace (len body + len R) with (len (body ++ R)) by (rewrite len_app; reflexivity).
    change 1 with (len [u8 codec]) at 1. rewrite read_at_app. cbn [bind fst snd].
    rewrite Ecodec, Eknown.
    replace ((body ++ R) ++ [u8 codec] ++ C ++ M) with (((body ++ R) ++ [u8 codec]) ++ C ++ M) by (rewrite <- !app_assoc; reflexivity).
    replace (len (body ++ R) + len [u8 codec]) with (len ((body ++ R) ++ [u8 codec])) by (rewrite !len_app; reflexivity).
    rewrite <- LC at 1. rewrite read_at_app. cbn [bind fst snd].
    unfold R, C. rewrite Eroot, Ecount. reflexivity.
  - (* V2 *)
    set (R := le_bytes 8 root). set (C := le_bytes 8 count). set (M := le_bytes 4 MAGIC_V2).
    assert (LR : len R = 8) by apply len_le_bytes. assert (LC : len C = 8) by apply len_le_bytes.
    assert (LM : len M = 4) by apply len_le_bytes.
    assert (Elev : le_decode [u8 levels] = levels).
    { unfold le_decode, u8. cbn [fold_right]. assert (levels mod 256 = levels) by (apply N.mod_small; lia). lia. }
    replace (body ++ R ++ [u8 codec] ++ C ++ [u8 levels] ++ M) with ((body ++ R ++ [u8 codec] ++ C ++ [u8 levels]) ++ M) by (rewrite <- !app_assoc; reflexivity).
    rewrite <- LM at 1. rewrite seek_end_app. cbn [bind].
    replace ((body ++ R ++ [u8 codec] ++ C ++ [u8 levels]) ++ M) with ((body ++ R ++ [u8 codec] ++ C ++ [u8 levels]) ++ M ++ []) by (rewrite app_nil_r; reflexivity).
    rewrite <- LM at 1. rewrite read_at_app. cbn [bind fst snd].
    change (le_decode M =? MAGIC_V1) with false. change (le_decode M =? MAGIC_V2) with true. cbn iota.
    rewrite app_nil_r.
    replace ((body ++ R ++ [u8 codec] ++ C ++ [u8 levels]) ++ M) with (body ++ (R ++ [u8 codec] ++ C ++ [u8 levels] ++ M)) by (rewrite <- !app_assoc; reflexivity).
    assert (LT : METADATA_V2_SIZE + 4 = len (R ++ [u8 codec] ++ C ++ [u8 levels] ++ M)).
    { rewrite !len_app, LR, LC, LM. reflexivity. }
    rewrite LT, seek_end_app. cbn [bind].
    rewrite <- LR at 1. rewrite read_at_app. cbn [bind fst snd].
    replace (body ++ R ++ [u8 codec] ++ C ++ [u8 levels] ++ M) with ((body ++ R) ++ [u8 codec] ++ (C ++ [u8 levels] ++ M)) by (rewrite <- !app_assoc; reflexivity).
    replace (len body + len R) with (len (body ++ R)) by (rewrite len_app; reflexivity).
    change 1 with (len [u8 codec]) at 1. rewrite read_at_app. cbn [bind fst snd].
    rewrite Ecodec, Eknown.
    replace ((body ++ R) ++ [u8 codec] ++ C ++ [u8 levels] ++ M) with (((body ++ R) ++ [u8 codec]) ++ C ++ ([u8 levels] ++ M)) by (rewrite <- !app_assoc; reflexivity).
    replace (len (body ++ R) + len [u8 codec]) with (len ((body ++ R) ++ [u8 codec])) by (rewrite !len_app; reflexivity).
    rewrite <- LC at 1. rewrite read_at_app. cbn [bind fst snd].
    replace (((body ++ R) ++ [u8 codec]) ++ C ++ [u8 levels] ++ M) with ((((body ++ R) ++ [u8 codec]) ++ C) ++ [u8 levels] ++ M) by (rewrite <- !app_assoc; reflexivity).
    replace (len ((body ++ R) ++ [u8 codec]) + len C) with (len (((body ++ R) ++ [u8 codec]) ++ C)) by (rewrite !len_app; reflexivity).
    change 1 with (len [u8 levels]) at 1. rewrite read_at_app. cbn [bind fst snd].
    unfold R, C. rewrite Eroot, Ecount, Elev. reflexivity.
Qed.

Lemma open_never_panics f : open_meta f <> Panic.
Proof.
  unfold open_meta, seek_end, read_exact_at.
  repeat (match goal with
          | |- context [if ?b then _ else _] => destruct b
          | |- context [bind (Done _) _] => cbn [bind fst snd]
          | |- context [bind (Fail _) _] => cbn [bind]
          end); try discriminate.
Qed.

Lemma read_ok f pos k : pos + k <= len f ->
  read_exact_at f pos k = Done (firstnN k (skipnN pos f), pos + k).
Proof. intro H. unfold read_exact_at. destruct (N.ltb_spec (len f) (pos + k)); [lia|reflexivity]. Qed.

Lemma byte_read f i : i < len f -> le_decode (firstnN 1 (skipnN i f)) = byte_at_N f i.
Proof.
  intro H. unfold byte_at_N. rewrite nthN_nth_error, firstnN_firstn, skipnN_skipn.
  rewrite len_length in H.
  assert (Hlt : (N.to_nat i < length f)%nat) by lia.
  revert Hlt. generalize (N.to_nat i) as j. clear H i. intro j; revert f.
  induction j as [|j IH]; intros [|x f] Hlt; cbn [length] in Hlt; try lia.
  - cbn [skipn nth_error]. change (N.to_nat 1) with 1%nat. cbn [firstn]. unfold le_decode. cbn [fold_right]. lia.
  - cbn [skipn nth_error]. apply IH. lia.
Qed.

Lemma magic_read (f : bytes) : 4 <= len f ->
  firstnN 4 (skipnN (len f - 4) f) = skipnN (len f - 4) f.
Proof. intro H. apply firstnN_all. rewrite len_skipnN. lia. Qed.

Lemma open_iff f :
  (exists m, open_meta f = Done m) <-> valid_trailer_suffixb f = true.
Proof.
  unfold valid_trailer_suffixb, open_meta, seek_end.
  change MAGIC_V1 with 1983008076. change MAGIC_V2 with 1730401476.
  change (METADATA_V1_SIZE + 4) with 21. change (METADATA_V2_SIZE + 4) with 22.
  set (n := len f).
  destruct (N.ltb_spec n 4) as [H4|H4].
  { cbn [bind]. destruct (N.leb_spec 4 n); [lia|]. cbn [andb]. split; [intros [m E]; discriminate | discriminate]. }
  destruct (N.leb_spec 4 n); [|lia]. cbn [bind andb].
  rewrite read_ok by (fold n; lia). cbn [bind fst snd].
  pose proof (magic_read f) as MR. fold n in MR. rewrite MR by lia. clear MR.
  set (mg := le_decode (skipnN (n - 4) f)).
  destruct (N.eqb_spec mg 1983008076) as [E1|E1].
  - (* V1 magic *)
    destruct (N.eqb_spec mg 1730401476) as [E2|_]; [lia|]. cbn [andb orb].
    destruct (N.ltb_spec n 21) as [H21|H21].
    { cbn [bind]. destruct (N.leb_spec 21 n); [lia|]. cbn [andb]. split; [intros [m E]; discriminate | discriminate]. }
    destruct (N.leb_spec 21 n); [|lia]. cbn [bind andb].
    rewrite read_ok by (fold n; lia). cbn [bind fst snd].
    rewrite read_ok by (fold n; lia). cbn [bind fst snd].
    rewrite byte_read by (fold n; lia).
    unfold codec_known. change CODEC_ID_MAX with 5.
    destruct (N.leb_spec (byte_at_N f (n - 21 + 8)) 5) as [Hc|Hc].
    + rewrite read_ok by (fold n; lia). cbn [bind fst snd]. split; [reflexivity | intros _; eexists; reflexivity].
    + split; [intros [m E]; discriminate | discriminate].
  - destruct (N.eqb_spec mg 1730401476) as [E2|E2].
    + (* V2 magic *)
      cbn [andb orb].
      destruct (N.ltb_spec n 22) as [H22|H22].
      { cbn [bind]. destruct (N.leb_spec 22 n); [lia|]. cbn [andb orb]. split; [intros [m E]; discriminate | discriminate]. }
      destruct (N.leb_spec 22 n); [|lia]. cbn [bind andb].
      rewrite read_ok by (fold n; lia). cbn [bind fst snd].
      rewrite read_ok by (fold n; lia). cbn [bind fst snd].
      rewrite byte_read by (fold n; lia).
      unfold codec_known. change CODEC_ID_MAX with 5.
      destruct (N.leb_spec (byte_at_N f (n - 22 + 8)) 5) as [Hc|Hc].
      * rewrite read_ok by (fold n; lia). cbn [bind fst snd].
        rewrite read_ok by (fold n; lia). cbn [bind fst snd].
        rewrite Bool.orb_false_r. split; [reflexivity | intros _; eexists; reflexivity].
      * cbn [orb]. split; [intros [m E]; discriminate | discriminate].
    + cbn [andb orb]. split; [intros [m E]; discriminate | discriminate].
Qed.

(* V1 and V2 trailers over the same body expose the same (root, codec, count) and levels 0 *)
Lemma open_v1_v2 body root codec count :
  root < 2^64 -> count < 2^64 -> codec <= 5 ->
  open_meta (body ++ trailer_bytes (mk_meta FormatV1 root codec count 0)) = Done (mk_meta FormatV1 root codec count 0) /\
  open_meta (body ++ trailer_bytes (mk_meta FormatV2 root codec count 0)) = Done (mk_meta FormatV2 root codec count 0).
Proof.
  intros Hr Hc Hk. split; apply open_written; unfold wf_meta; cbn [m_root m_count m_codec m_levels m_version];
    repeat split; try assumption; try lia; try reflexivity.
Qed.

Lemma open_v1_layout body root codec count :
  root < 2^64 -> count < 2^64 -> codec <= 5 ->
  open_meta (body ++ le_bytes 8 root ++ [codec] ++ le_bytes 8 count ++ le_bytes 4 1983008076)
  = Done (mk_meta FormatV1 root codec count 0).
Proof.
  intros Hr Hc Hk.
  pose proof (open_written body (mk_meta FormatV1 root codec count 0)) as H.
  unfold trailer_bytes in H. cbn [m_version m_root m_codec m_count m_levels] in H.
  assert (E : u8 codec = codec) by (unfold u8; apply N.mod_small; lia).
  rewrite E in H. change MAGIC_V1 with 1983008076 in H. apply H.
  unfold wf_meta; cbn [m_root m_count m_codec m_levels m_version]. repeat split; try assumption; try lia; reflexivity.
Qed.
