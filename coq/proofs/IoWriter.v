(* Instances of the writer's sink parametricity: scheduled sink (C11), fault-free and
   fault-injecting sinks (C12), each against the plain in-memory sink. *)
From Coq Require Import Lia ZArith ZifyN ZifyBool ZifyNat.
From Grenad.model Require Import Base Varint Block Trailer Writer IoModel.
From Grenad.proofs Require Import BaseProofs IoProofs WriterHom.
Ltac Zify.zify_post_hook ::= Z.div_mod_to_equations.

Definition w_run_plain (compress : N -> N -> bytes -> outcome bytes) (c : wcfg) (es : list entry) :=
  w_run_gen vsink vs_wr vs_fl vs_count compress c vs_empty es.

Definition never (e : err) : Prop := False.

Lemma vs_bytes_push b chunks cnt : vs_bytes (mk_vsink (b :: chunks) cnt) = concat (rev chunks) ++ b.
Proof. unfold vs_bytes. cbn [vs_chunks rev]. rewrite concat_app. cbn [concat]. rewrite app_nil_r. reflexivity. Qed.

(* ---- C11: scheduled sink vs plain sink ---- *)
Definition Rsched (s1 : ssink) (s2 : vsink) : Prop :=
  benign (sk_sched s1) /\ sk_bytes s1 = vs_bytes s2 /\ sk_count s1 = vs_count s2.

Theorem sched_run_eq compress sched c es : benign sched ->
  let r1 := w_run_sched compress sched c es in
  let r2 := w_run_plain compress c es in
  fst r1 = fst r2 /\
  orel never (fun p q => sk_bytes (fst (fst p)) = vs_bytes (fst (fst q)) /\ sk_count (fst (fst p)) = vs_count (fst (fst q)) /\
                         snd (fst p) = snd (fst q) /\ snd p = snd q) (snd r1) (snd r2).
Proof.
  intro Hb. cbv zeta. unfold w_run_sched, w_run_plain.
  destruct (w_run_gen_rel ssink vsink sk_wr sk_fl sk_count vs_wr vs_fl vs_count compress Rsched Rsched never) with (c := c) (s1 := sk_new sched) (s2 := vs_empty) (es := es)
    as [(e & _ & F)|[K1 K2]].
  - intros s1 s2 (_ & _ & H). exact H.
  - intros s1 s2 b (H1 & H2 & H3).
    destruct (sk_wr_delivers s1 b H1) as (s' & E & Hbytes & Hcnt & Hben). rewrite E. unfold vs_wr.
    constructor. unfold Rsched. split; [exact Hben|]. split.
    + rewrite Hbytes, H2. rewrite vs_bytes_push. reflexivity.
    + cbn [vs_count]. rewrite Hcnt, H3. reflexivity.
  - intros s1 s2 H. unfold sk_fl, vs_fl. constructor. exact H.
  - unfold Rsched, sk_new. cbn. split; [exact Hb|]. split; reflexivity.
  - destruct F.
  - split; [exact K1|].
    destruct K2 as [p q (R1 & R2 & R3)| |e|e y []]; constructor.
    destruct R1 as (_ & B & C). auto.
Qed.

(* ---- C12: a sink that injects no fault behaves exactly as the plain one ---- *)
Definition Rquiet (f : fsink) (v : vsink) : Prop := fk_sink f = v /\ fk_pos f = None /\ fk_flush f = false.

Theorem quiet_run_eq compress c es :
  let r1 := w_run_fault compress None false c es in
  let r2 := w_run_plain compress c es in
  fst r1 = fst r2 /\
  orel never (fun p q => fk_sink (fst (fst p)) = fst (fst q) /\ snd (fst p) = snd (fst q) /\ snd p = snd q) (snd r1) (snd r2).
Proof.
  cbv zeta. unfold w_run_fault, w_run_plain.
  destruct (w_run_gen_rel fsink vsink fk_wr fk_fl fk_cnt vs_wr vs_fl vs_count compress Rquiet Rquiet never) with (c := c) (s1 := mk_fsink vs_empty None false) (s2 := vs_empty) (es := es)
    as [(e & _ & F)|[K1 K2]].
  - intros s1 s2 (H & _ & _). unfold fk_cnt. rewrite H. reflexivity.
  - intros s1 s2 b (H1 & H2 & H3). unfold fk_wr. rewrite H2, H1. unfold vs_wr. cbn [omap]. constructor.
    unfold Rquiet. cbn [fk_sink fk_pos fk_flush]. auto.
  - intros s1 s2 (H1 & H2 & H3). unfold fk_fl, vs_fl. rewrite H3. constructor. unfold Rquiet; auto.
  - unfold Rquiet. cbn. auto.
  - destruct F.
  - split; [exact K1|]. destruct K2 as [p q (R1 & R2 & R3)| |e|e y []]; constructor.
    destruct R1 as (B & _ & _). auto.
Qed.

(* ---- C12: the sink that fails the write of byte number [p] (and/or the flush) ---- *)
Definition injected (e : err) : Prop := e = EIo IO_INJECTED.
Definition Rfault (p : N) (fl : bool) (f : fsink) (v : vsink) : Prop :=
  fk_sink f = v /\ fk_pos f = Some p /\ fk_flush f = fl /\ vs_count v <= p.

(* either the faulty run fails with the injected error, or the fault position was never reached:
   then it ends at the same call with the same outcome as the plain run, whose file is <= p long *)
Theorem fault_run compress p fl c es :
  let r1 := w_run_fault compress (Some p) fl c es in
  let r2 := w_run_plain compress c es in
  snd r1 = Fail (EIo IO_INJECTED) \/
  (fst r1 = fst r2 /\
   orel injected (fun x y => fk_sink (fst (fst x)) = fst (fst y) /\ vs_count (fst (fst y)) <= p /\ fl = false /\
                             snd (fst x) = snd (fst y) /\ snd x = snd y) (snd r1) (snd r2)).
Proof.
  cbv zeta. unfold w_run_fault, w_run_plain.
  destruct (w_run_gen_rel fsink vsink fk_wr fk_fl fk_cnt vs_wr vs_fl vs_count compress (Rfault p fl) (fun f v => Rfault p fl f v /\ fl = false) injected) with (c := c) (s1 := mk_fsink vs_empty (Some p) fl) (s2 := vs_empty) (es := es)
    as [(e & Ee & F)|[K1 K2]].
  - intros s1 s2 (H & _). unfold fk_cnt. rewrite H. reflexivity.
  - intros s1 s2 b (H1 & H2 & H3 & H4). unfold fk_wr. rewrite H2, H1.
    destruct ((vs_count s2 + len b <=? p) || (len b =? 0)) eqn:Ec.
    + unfold vs_wr. cbn [omap]. constructor. unfold Rfault. cbn [fk_sink fk_pos fk_flush vs_count].
      repeat split; auto. apply Bool.orb_true_iff in Ec. destruct Ec as [Ec|Ec]; lia.
    + apply orel_early. reflexivity.
  - intros s1 s2 (H1 & H2 & H3 & H4). unfold fk_fl, vs_fl. rewrite H3. destruct fl.
    + apply orel_early. reflexivity.
    + constructor. unfold Rfault; auto.
  - unfold Rfault. cbn. repeat split; lia.
  - left. rewrite Ee. unfold injected in F. rewrite F. reflexivity.
  - right. split; [exact K1|].
    destruct K2 as [x y (R1 & R2 & R3)| |e|e y He].
    + constructor. destruct R1 as ((B & _ & _ & Cn) & Fl). rewrite <- B in Cn. rewrite B in *. auto.
    + constructor.
    + constructor.
    + apply orel_early. exact He.
Qed.

(* hence: when the plain run produces a file longer than p bytes (the fault position lies inside
   the file), or the flush fault is armed, the faulty run returns the injected error — it neither
   succeeds nor panics *)
Corollary fault_surfaces compress p fl c es s lg m :
  snd (w_run_plain compress c es) = Done (s, lg, m) -> (p < vs_count s \/ fl = true) ->
  snd (w_run_fault compress (Some p) fl c es) = Fail (EIo IO_INJECTED).
Proof.
  intros Hplain Hp. destruct (fault_run compress p fl c es) as [F|[_ K]]; [exact F|].
  rewrite Hplain in K. inversion K as [x y (A & B & C & _)| | |e y He]; subst.
  - cbn [fst] in B. destruct Hp as [Hp|Hp]; [lia|congruence].
  - unfold injected in He. subst e. reflexivity.
Qed.
