(* C02 — Seeks return the exact ceiling, floor or match of the probe key.  Statements only.
   Proved so far: the specification functions compute the ceiling / floor the property describes.
   The refinement of the cursor (Reader.cstep) to them is validated by the correspondence. *)
From Grenad.model Require Import Base Block Reader Spec.
From Grenad.proofs Require Import SpecProofs.

(* ceil_idx returns the first entry with key >= q: it is >= q and every earlier entry is < q
   (on a sorted list: the smallest key >= q) *)
Theorem C02_ceil_spec : forall es q i0 i e,
  ceil_idx es q i0 = Some (i, e) ->
  i0 <= i /\ nthN (i - i0) es = Some e /\ bytes_leb q (fst e) = true /\
  (forall j e', j < i - i0 -> nthN j es = Some e' -> bytes_ltb (fst e') q = true).
Proof. exact ceil_idx_spec. Qed.
Print Assumptions C02_ceil_spec.

(* None exactly when every key is < q *)
Theorem C02_ceil_none : forall es q i0, ceil_idx es q i0 = None -> forall e, In e es -> bytes_ltb (fst e) q = true.
Proof. exact ceil_idx_none. Qed.
Print Assumptions C02_ceil_none.

Theorem C02_floor_spec : forall es q i0 best i e,
  floor_idx es q i0 best = Some (i, e) ->
  best = Some (i, e) \/ (i0 <= i /\ nthN (i - i0) es = Some e /\ bytes_leb (fst e) q = true).
Proof. exact floor_idx_spec. Qed.
Print Assumptions C02_floor_spec.

Example C02_examples :
  let es := [([1], [10]); ([1; 0], [11]); ([3], [12])] in
  ceil_idx es [1; 0; 0] 0 = Some (2, ([3], [12])) /\ floor_idx es [1; 0; 0] 0 None = Some (1, ([1; 0], [11])) /\
  find_idx es [2] = None /\ ceil_idx es [4] 0 = None /\ floor_idx es [] 0 None = None.
Proof. vm_compute. repeat split; reflexivity. Qed.
