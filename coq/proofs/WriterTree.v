(* Backbone W, part 2: the index tree.  Ghost state: the emission log paired with the entries of
   each emitted block, and the entries of every pending block.  Invariant: at every index level the
   entries of the emitted blocks followed by the pending entries are exactly the (last key, offset)
   items of the blocks emitted one level below; the data level spells the inserted entries. *)
From Coq Require Import Lia ZArith ZifyN ZifyBool ZifyNat.
From Grenad.gen Require Import Consts.
From Grenad.model Require Import Base Varint Block Trailer Writer Reader Spec Format.
From Grenad.proofs Require Import BaseProofs BlockProofs FormatProofs WriterInv WriterLayout.
Ltac Zify.zify_post_hook ::= Z.div_mod_to_equations.

Arguments w_data {SK} _. Arguments w_idx {SK} _. Arguments w_count {SK} _.
Arguments w_sink {SK} _. Arguments w_log {SK} _. Arguments mk_wstate {SK} _ _ _ _ _.

Notation gentry := (emitted * list entry)%type.

Definition last_key (es : list entry) : bytes := match last_opt es with Some (k, _) => k | None => [] end.
Definition item_of (p : gentry) : entry := (last_key (snd p), be_bytes 8 (em_offset (fst p))).
Definition gblocks (k : N) (gl : list gentry) : list gentry := filter (fun p => em_level (fst p) =? k) gl.
Definition upd (f : N -> list entry) (k : N) (v : list entry) : N -> list entry := fun x => if x =? k then v else f x.

Section Tree.
  Variable L : N.     (* index_levels *)

  (* TI gl pes ins *)
  Definition TI (gl : list gentry) (pes : N -> list entry) (ins : list entry) : Prop :=
    (forall k, k <= L -> flat_map snd (gblocks k gl) ++ pes k = map item_of (gblocks (k + 1) gl)) /\
    flat_map snd (gblocks (L + 1) gl) ++ pes (L + 1) = ins.

  Lemma gblocks_snoc k gl p : gblocks k (gl ++ [p]) = gblocks k gl ++ (if em_level (fst p) =? k then [p] else []).
  Proof. unfold gblocks. rewrite filter_app. cbn [filter]. destruct (em_level (fst p) =? k); reflexivity. Qed.

  Lemma TI_init : TI [] (fun _ => []) [].
  Proof. split; [intros k _; reflexivity|reflexivity]. Qed.

  (* inserting an entry into the pending data block *)
  Lemma TI_data_insert gl pes ins e :
    TI gl pes ins -> TI gl (upd pes (L + 1) (pes (L + 1) ++ [e])) (ins ++ [e]).
  Proof.
    intros [H1 H2]. split.
    - intros k Hk. unfold upd. destruct (N.eqb_spec k (L + 1)); [lia|]. apply H1. exact Hk.
    - unfold upd. rewrite N.eqb_refl. rewrite app_assoc, H2. reflexivity.
  Qed.

  (* emitting the pending block of level j (its entries es = pes j) and recording its item in the
     pending block of level j - 1 *)
  Lemma TI_emit gl pes ins j e :
    TI gl pes ins -> 1 <= j <= L + 1 -> em_level e = j ->
    TI (gl ++ [(e, pes j)]) (upd (upd pes j []) (j - 1) (pes (j - 1) ++ [item_of (e, pes j)])) ins.
  Proof.
    intros [H1 H2] Hj He. split.
    - intros k Hk. rewrite !gblocks_snoc. cbn [fst]. rewrite He. unfold upd.
      destruct (N.eqb_spec j k) as [Ejk|Ejk].
      + (* k = j: the block joins level k; its pending entries are now empty *)
        rewrite <- Ejk in *. destruct (N.eqb_spec j (j + 1)); [lia|]. rewrite app_nil_r.
        destruct (N.eqb_spec j (j - 1)); [lia|]. rewrite N.eqb_refl.
        rewrite flat_map_app. cbn [flat_map snd]. rewrite !app_nil_r. apply H1. exact Hk.
      + destruct (N.eqb_spec j (k + 1)) as [Ejk1|Ejk1].
        * (* k = j - 1: the item joins the pending entries, the block joins level k + 1 *)
          assert (Hj1 : j - 1 = k) by lia. rewrite Hj1.
          rewrite app_nil_r. rewrite N.eqb_refl.
          rewrite map_app. cbn [map]. rewrite app_assoc. rewrite (H1 k Hk). reflexivity.
        * rewrite !app_nil_r. destruct (N.eqb_spec k (j - 1)); [lia|]. destruct (N.eqb_spec k j); [lia|]. apply H1. exact Hk.
    - rewrite gblocks_snoc. cbn [fst]. rewrite He. unfold upd.
      destruct (N.eqb_spec j (L + 1)) as [Ej|Ej].
      + rewrite Ej. destruct (N.eqb_spec (L + 1) (L + 1 - 1)); [lia|]. rewrite N.eqb_refl.
        rewrite flat_map_app. cbn [flat_map snd]. rewrite !app_nil_r. exact H2.
      + rewrite app_nil_r. destruct (N.eqb_spec (L + 1) (j - 1)); [lia|]. destruct (N.eqb_spec (L + 1) j); [lia|]. exact H2.
  Qed.

  (* emitting the root (level 0): no parent *)
  Lemma TI_emit_root gl pes ins e :
    TI gl pes ins -> em_level e = 0 ->
    TI (gl ++ [(e, pes 0)]) (upd pes 0 []) ins.
  Proof.
    intros [H1 H2] He. split.
    - intros k Hk. rewrite !gblocks_snoc. cbn [fst]. rewrite He. unfold upd.
      destruct (N.eqb_spec 0 k) as [E0|E0].
      + rewrite <- E0 in *. destruct (N.eqb_spec 0 (0 + 1)); [lia|]. rewrite ?app_nil_r. rewrite ?N.eqb_refl.
        rewrite flat_map_app. cbn [flat_map snd]. rewrite ?app_nil_r. apply H1. exact Hk.
      + destruct (N.eqb_spec 0 (k + 1)); [lia|]. rewrite !app_nil_r. destruct (N.eqb_spec k 0); [lia|]. apply H1. exact Hk.
    - rewrite gblocks_snoc. cbn [fst]. rewrite He. unfold upd.
      destruct (N.eqb_spec 0 (L + 1)); [lia|]. rewrite app_nil_r. destruct (N.eqb_spec (L + 1) 0); [lia|]. exact H2.
  Qed.
End Tree.

(* ---- the writer maintains the tree invariant ---- *)
Lemma bw_insert_ok w es k v w' : bw_ok w es -> bw_insert w k v = Done w' ->
  bw_ok w' (es ++ [(k, v)]) /\ bw_interval w' = bw_interval w.
Proof.
  intros Hok H. destruct (bw_insert_spec w es k v Hok) as [Hgood Hbad].
  set (cond := entry_ok (k, v) /\ match last_opt es with Some (lk, _) => bytes_ltb lk k = true | None => True end) in *.
  assert (Dec : cond \/ ~ cond).
  { unfold cond, entry_ok. cbn [fst snd].
    destruct (N.leb_spec (len k) U32_MAX); [|right; intros [[? ?] ?]; lia].
    destruct (N.leb_spec (len v) U32_MAX); [|right; intros [[? ?] ?]; lia].
    destruct (last_opt es) as [[lk lv]|]; [|left; auto].
    destruct (bytes_ltb lk k); [left; auto | right; intros [_ ?]; discriminate]. }
  destruct Dec as [Hc|Hc].
  - destruct (Hgood Hc) as (w1 & E1 & Hok1 & Hi). rewrite E1 in H. injection H as <-. auto.
  - rewrite (Hbad Hc) in H. discriminate.
Qed.

Section WTree.
  Variable compress : N -> N -> bytes -> outcome bytes.
  Variable decompress : N -> bytes -> outcome bytes.
  Variable c : wcfg.
  Hypothesis codec_ok : forall b z, compress (wc_codec c) (wc_level c) b = Done z -> decompress (wc_codec c) z = Done b.
  Notation L := (wc_levels c).

  Definition bw_okI (w : bw) (es : list entry) : Prop := bw_ok w es /\ bw_interval w = wc_interval c.
  Definition ents (p : gentry) : Prop :=
    (exists w, bw_okI w (snd p) /\ bw_finish w = Done (em_bytes (fst p))) /\
    (snd p = [] -> em_level (fst p) = 0).
  Definition nz (p : gentry) : Prop := 1 <= em_level (fst p).

  Lemma ents_intro e es w : bw_okI w es -> bw_finish w = Done (em_bytes e) -> (es = [] -> em_level e = 0) -> ents (e, es).
  Proof. intros A B C. split; [exists w; cbn [fst snd]; auto|exact C]. Qed.

  Fixpoint uplink (pes : N -> list entry) (lvl : N) (up : list bw) : Prop :=
    match up with
    | [] => True
    | p :: up' => bw_okI p (pes (lvl - 1)) /\ uplink pes (lvl - 1) up'
    end.

  Lemma uplink_ext pes pes' : forall up lvl, len up <= lvl -> (forall k, k < lvl -> pes' k = pes k) ->
    uplink pes lvl up -> uplink pes' lvl up.
  Proof.
    induction up as [|p up IH]; intros lvl Hlen Hext H; cbn [uplink] in *; [exact I|].
    rewrite len_cons in Hlen. destruct H as [H1 H2].
    split; [rewrite (Hext (lvl - 1) ltac:(lia)); exact H1|].
    apply IH; [lia | intros k Hk; apply Hext; lia | exact H2].
  Qed.

  Lemma cwb_offset s w lvl s' w' e :
    cwb vsink vs_wr vs_count compress c s w lvl = Done (s', w', e) -> em_offset e = vs_count s.
  Proof.
    unfold cwb. destruct (bw_finish w) as [buffer| |]; cbn [bind]; try discriminate.
    destruct (compress _ _ buffer) as [z| |]; cbn [bind]; try discriminate.
    unfold vs_wr. cbn [bind]. intro H. injection H as _ _ <-. reflexivity.
  Qed.

  Lemma last_key_of w es lk : bw_ok w es -> bw_last w = Some lk -> last_key es = lk /\ es <> [].
  Proof.
    intros [_ _ Hl _ _ _ _] E. rewrite Hl in E. unfold last_key.
    destruct (last_opt es) as [[k v]|] eqn:El; cbn [option_map fst] in E; [|discriminate].
    injection E as ->. split; [reflexivity|]. intro Hn. subst es. discriminate.
  Qed.

  Definition Gst0 (s : vsink) (lg : list emitted) (gl : list gentry) (pes : N -> list entry) (ins : list entry) : Prop :=
    sink_ok compress c s lg /\ map fst gl = rev lg /\ Forall ents gl /\ TI L gl pes ins.
  Definition Gst (s : vsink) (lg : list emitted) (gl : list gentry) (pes : N -> list entry) (ins : list entry) : Prop :=
    Gst0 s lg gl pes ins /\ Forall nz gl.

  Lemma cascade_tree : forall up s lg cur lvl s' lg' blocks gl pes ins,
    cascade_from vsink vs_wr vs_count compress c s lg cur lvl up = Done (s', lg', blocks) ->
    lvl = len up + 1 -> lvl <= L ->
    Gst s lg gl pes ins -> bw_okI cur (pes lvl) -> uplink pes lvl up ->
    exists gl' pes', Gst s' lg' gl' pes' ins /\ uplink pes' (lvl + 1) blocks /\ (forall k, lvl < k -> pes' k = pes k) /\
                     (forall k, k + len up < lvl -> pes' k = pes k) /\ length blocks = S (length up).
  Proof.
    induction up as [|parent up IH]; intros s lg cur lvl s' lg' blocks gl pes ins H Hlvl HL HG Hcur Hup; cbn [cascade_from] in H.
    - injection H as <- <- <-. exists gl, pes. split; [exact HG|]. split; [|auto].
      cbn [uplink]. replace (lvl + 1 - 1) with lvl by lia. auto.
    - rewrite len_cons in Hlvl. cbn [uplink] in Hup. destruct Hup as [Hpar Hup'].
      assert (Hnocut : forall s0 lg0 ups,
                cascade_from vsink vs_wr vs_count compress c s lg parent (lvl - 1) up = Done (s0, lg0, ups) ->
                exists gl' pes', Gst s0 lg0 gl' pes' ins /\ uplink pes' (lvl + 1) (cur :: ups) /\ (forall k, lvl < k -> pes' k = pes k) /\
                                 (forall k, k + len (parent :: up) < lvl -> pes' k = pes k) /\ length (cur :: ups) = S (length (parent :: up))).
      { intros s0 lg0 ups Er.
        destruct (IH s lg parent (lvl - 1) s0 lg0 ups gl pes ins Er ltac:(lia) ltac:(lia) HG Hpar Hup') as (gl' & pes' & A & B & C & C2 & C3).
        exists gl', pes'. split; [exact A|]. split; [|split; [intros k Hk; apply C; lia|split; [intros k Hk; rewrite len_cons in Hk; apply C2; lia|cbn [length]; lia]]].
        cbn [uplink]. replace (lvl + 1 - 1) with lvl by lia. replace (lvl - 1 + 1) with lvl in B by lia.
        split; [rewrite (C lvl ltac:(lia)); exact Hcur|exact B]. }
      destruct (wc_block_size c <=? bw_size cur).
      + destruct (bw_last cur) as [lk|] eqn:El.
        * destruct (bw_insert parent lk (be_bytes 8 (vs_count s))) as [parent'| |] eqn:Ep; cbn [bind] in H; try discriminate.
          destruct (cwb vsink vs_wr vs_count compress c s cur lvl) as [[[s1 cur'] e]| |] eqn:Ec; cbn [bind] in H; try discriminate.
          destruct (cascade_from vsink vs_wr vs_count compress c s1 (e :: lg) parent' (lvl - 1) up) as [[[s2 lg2] ups]| |] eqn:Er; cbn [bind] in H; try discriminate.
          injection H as <- <- <-.
          destruct HG as ((Hs & Hm & He & HT) & Hnz). destruct Hcur as [Hcok Hci]. destruct Hpar as [Hpok Hpi].
          pose proof (cwb_layout compress decompress c codec_ok s lg cur lvl s1 cur' e Ec Hs) as Hs1.
          pose proof (cwb_offset s cur lvl s1 cur' e Ec) as Hoff.
          destruct (cwb_spec vsink vs_wr vs_count compress c s cur lvl s1 cur' e Ec) as (Hf & Hel & Hcur').
          destruct (last_key_of cur (pes lvl) lk Hcok El) as [Hlk Hne].
          destruct (bw_insert_ok parent (pes (lvl - 1)) lk _ parent' Hpok Ep) as [Hpok' Hpi'].
          set (gl1 := gl ++ [(e, pes lvl)]).
          set (pes1 := upd (upd pes lvl []) (lvl - 1) (pes (lvl - 1) ++ [item_of (e, pes lvl)])).
          assert (Hitem : item_of (e, pes lvl) = (lk, be_bytes 8 (vs_count s))).
          { unfold item_of. cbn [fst snd]. rewrite Hlk, Hoff. reflexivity. }
          assert (HG1 : Gst s1 (e :: lg) gl1 pes1 ins).
          { split; [|unfold gl1; apply Forall_app; split; [exact Hnz|]; constructor; [unfold nz; cbn [fst]; lia|constructor]].
            split; [exact Hs1|]. split; [unfold gl1; rewrite map_app; cbn [map fst rev]; rewrite Hm; reflexivity|].
            split; [unfold gl1; apply Forall_app; split; [exact He|]; constructor; [|constructor];
                    apply (ents_intro _ _ cur); [split; assumption|exact Hf|intro Hx; exfalso; exact (Hne Hx)]|].
            unfold gl1, pes1. apply TI_emit; [exact HT | lia | exact Hel]. }
          assert (Hpar1 : bw_okI parent' (pes1 (lvl - 1))).
          { unfold pes1, upd. rewrite N.eqb_refl. rewrite Hitem. split; [exact Hpok'|congruence]. }
          assert (Hup1 : uplink pes1 (lvl - 1) up).
          { apply (uplink_ext pes pes1 up (lvl - 1)); [lia| |exact Hup'].
            intros k Hk. unfold pes1, upd. destruct (N.eqb_spec k (lvl - 1)); [lia|]. destruct (N.eqb_spec k lvl); [lia|reflexivity]. }
          destruct (IH s1 (e :: lg) parent' (lvl - 1) s2 lg2 ups gl1 pes1 ins Er ltac:(lia) ltac:(lia) HG1 Hpar1 Hup1) as (gl' & pes' & A & B & C & C2 & C3).
          exists gl', pes'. split; [exact A|]. split; [|split; [|split; [|cbn [length]; lia]]].
          -- cbn [uplink]. replace (lvl + 1 - 1) with lvl by lia. replace (lvl - 1 + 1) with lvl in B by lia. split; [|exact B].
             rewrite (C lvl ltac:(lia)). unfold pes1, upd. destruct (N.eqb_spec lvl (lvl - 1)); [lia|]. rewrite N.eqb_refl.
             subst cur'. split; [apply bw_reset_ok|]. unfold bw_reset, bw_new. cbn [bw_interval]. exact Hci.
          -- intros k Hk. rewrite (C k ltac:(lia)). unfold pes1, upd.
             destruct (N.eqb_spec k (lvl - 1)); [lia|]. destruct (N.eqb_spec k lvl); [lia|reflexivity].
          -- intros k Hk. rewrite len_cons in Hk. rewrite (C2 k ltac:(lia)). unfold pes1, upd.
             destruct (N.eqb_spec k (lvl - 1)); [lia|]. destruct (N.eqb_spec k lvl); [lia|reflexivity].
        * destruct (cascade_from vsink vs_wr vs_count compress c s lg parent (lvl - 1) up) as [[[s2 lg2] ups]| |] eqn:Er; cbn [bind] in H; try discriminate.
          injection H as <- <- <-. exact (Hnocut _ _ _ eq_refl).
      + destruct (cascade_from vsink vs_wr vs_count compress c s lg parent (lvl - 1) up) as [[[s2 lg2] ups]| |] eqn:Er; cbn [bind] in H; try discriminate.
        injection H as <- <- <-. exact (Hnocut _ _ _ eq_refl).
  Qed.

  Lemma uplink_app pes : forall a b lvl, uplink pes lvl (a ++ b) <-> uplink pes lvl a /\ uplink pes (lvl - len a) b.
  Proof.
    induction a as [|x a IH]; intros b lvl; cbn [app uplink].
    - change (len (@nil bw)) with 0. replace (lvl - 0) with lvl by lia. tauto.
    - rewrite IH, len_cons. replace (lvl - 1 - len a) with (lvl - (len a + 1)) by lia. tauto.
  Qed.

  Definition WT (st : wstate vsink) (gl : list gentry) (pes : N -> list entry) (ins : list entry) : Prop :=
    Gst (w_sink st) (w_log st) gl pes ins /\ bw_okI (w_data st) (pes (L + 1)) /\
    uplink pes (L + 1) (rev (w_idx st)) /\ len (w_idx st) = L + 1.

  Lemma rev_cons_split' {A} (x : A) l root sl :
    rev (x :: l) = root :: sl ->
    (l = [] /\ root = x /\ sl = []) \/ (exists up, l = up ++ [root] /\ rev sl = x :: up).
  Proof.
    cbn [rev]. destruct (rev l) as [|r mid] eqn:E; cbn [app]; intro H.
    - left. injection H as <- <-. apply (f_equal (@rev A)) in E. rewrite rev_involutive in E. auto.
    - right. injection H as <- <-. exists (rev mid). split.
      + apply (f_equal (@rev A)) in E. rewrite rev_involutive in E. exact E.
      + rewrite rev_app_distr. reflexivity.
  Qed.

  Theorem w_insert_tree st k v st' gl pes ins :
    w_insert vsink vs_wr vs_count compress c st k v = Done st' -> WT st gl pes ins ->
    exists gl' pes', WT st' gl' pes' (ins ++ [(k, v)]).
  Proof.
    intros H (HG & Hd & Hidx & Hlen). unfold w_insert in H.
    destruct (bw_insert (w_data st) k v) as [d| |] eqn:Ed; cbn [bind] in H; try discriminate.
    destruct Hd as [Hdok Hdi].
    destruct (bw_insert_ok (w_data st) _ k v d Hdok Ed) as [Hdok' Hdi'].
    set (pes0 := upd pes (L + 1) (pes (L + 1) ++ [(k, v)])).
    assert (HG0 : Gst (w_sink st) (w_log st) gl pes0 (ins ++ [(k, v)])).
    { destruct HG as ((A & B & C & T) & Z). split; [|exact Z]. split; [exact A|]. split; [exact B|]. split; [exact C|]. apply TI_data_insert. exact T. }
    assert (Hd0 : bw_okI d (pes0 (L + 1))) by (unfold pes0, upd; rewrite N.eqb_refl; split; [exact Hdok'|congruence]).
    assert (Hlen' : len (rev (w_idx st)) = L + 1) by (rewrite len_length, rev_length, <- len_length; exact Hlen).
    assert (Hidx0 : uplink pes0 (L + 1) (rev (w_idx st))).
    { apply (uplink_ext pes pes0); [lia| |exact Hidx]. intros j Hj. unfold pes0, upd. destruct (N.eqb_spec j (L + 1)); [lia|reflexivity]. }
    assert (Hkeep : WT (mk_wstate d (w_idx st) (w_count st + 1) (w_sink st) (w_log st)) gl pes0 (ins ++ [(k, v)])).
    { split; [exact HG0|]. split; [exact Hd0|]. split; [exact Hidx0|exact Hlen]. }
    destruct (wc_block_size c <=? bw_size d); [|injection H as <-; exists gl, pes0; exact Hkeep].
    destruct (bw_last d) as [last_k|] eqn:El; [|injection H as <-; exists gl, pes0; exact Hkeep].
    destruct (rev (w_idx st)) as [|deepest above] eqn:Er; [injection H as <-; exists gl, pes0; exact Hkeep|].
    cbn [uplink] in Hidx0. destruct Hidx0 as [Hdeep Habove]. replace (L + 1 - 1) with L in * by lia.
    destruct Hdeep as [Hpok Hpi].
    destruct (bw_insert deepest last_k (be_bytes 8 (vs_count (w_sink st)))) as [deepest'| |] eqn:Ep; cbn [bind] in H; try discriminate.
    destruct (cwb vsink vs_wr vs_count compress c (w_sink st) d (L + 1)) as [[[s1 d'] e]| |] eqn:Ec; cbn [bind] in H; try discriminate.
    destruct HG0 as ((Hs & Hm & He & HT) & Hnz).
    pose proof (cwb_layout compress decompress c codec_ok _ _ d (L + 1) s1 d' e Ec Hs) as Hs1.
    pose proof (cwb_offset _ d (L + 1) s1 d' e Ec) as Hoff.
    destruct (cwb_spec vsink vs_wr vs_count compress c _ d (L + 1) s1 d' e Ec) as (Hf & Hel & Hd').
    destruct (last_key_of d (pes0 (L + 1)) last_k (proj1 Hd0) El) as [Hlk Hne].
    destruct (bw_insert_ok deepest (pes0 L) last_k _ deepest' Hpok Ep) as [Hpok' Hpi'].
    set (gl1 := gl ++ [(e, pes0 (L + 1))]).
    set (pes1 := upd (upd pes0 (L + 1) []) (L + 1 - 1) (pes0 (L + 1 - 1) ++ [item_of (e, pes0 (L + 1))])).
    assert (Hitem : item_of (e, pes0 (L + 1)) = (last_k, be_bytes 8 (vs_count (w_sink st)))).
    { unfold item_of. cbn [fst snd]. rewrite Hlk, Hoff. reflexivity. }
    assert (HG1 : Gst s1 (e :: w_log st) gl1 pes1 (ins ++ [(k, v)])).
    { split; [|unfold gl1; apply Forall_app; split; [exact Hnz|]; constructor; [unfold nz; cbn [fst]; lia|constructor]].
      split; [exact Hs1|]. split; [unfold gl1; rewrite map_app; cbn [map fst rev]; rewrite Hm; reflexivity|].
      split; [unfold gl1; apply Forall_app; split; [exact He|]; constructor; [|constructor];
              apply (ents_intro _ _ d); [exact Hd0|exact Hf|intro Hx; exfalso; exact (Hne Hx)]|].
      unfold gl1, pes1. apply TI_emit; [exact HT | lia | exact Hel]. }
    assert (P1L : pes1 L = pes0 L ++ [(last_k, be_bytes 8 (vs_count (w_sink st)))]).
    { unfold pes1, upd. replace (L + 1 - 1) with L by lia. rewrite N.eqb_refl. rewrite Hitem. reflexivity. }
    assert (P1D : pes1 (L + 1) = []).
    { unfold pes1, upd. destruct (N.eqb_spec (L + 1) (L + 1 - 1)); [lia|]. rewrite N.eqb_refl. reflexivity. }
    assert (P1lt : forall j, j < L -> pes1 j = pes0 j).
    { intros j Hj. unfold pes1, upd. destruct (N.eqb_spec j (L + 1 - 1)); [lia|]. destruct (N.eqb_spec j (L + 1)); [lia|reflexivity]. }
    assert (Hdeep1 : bw_okI deepest' (pes1 L)) by (rewrite P1L; split; [exact Hpok'|congruence]).
    assert (Hd1 : bw_okI d' (pes1 (L + 1))).
    { rewrite P1D. subst d'. split; [apply bw_reset_ok|]. unfold bw_reset, bw_new. cbn [bw_interval]. congruence. }
    rewrite len_cons in Hlen'.
    assert (Habove1 : uplink pes1 L above) by (apply (uplink_ext pes0 pes1); [lia|exact P1lt|exact Habove]).
    destruct (rev (deepest' :: above)) as [|root sl] eqn:Er2; [discriminate|].
    apply rev_cons_split' in Er2. destruct Er2 as [(Ea & Eroot & Esl)|(up & Ea & Esl)].
    - subst above sl root. cbn [rev] in H. injection H as <-.
      exists gl1, pes1. split; [exact HG1|]. cbn [w_data w_idx rev app]. split; [exact Hd1|].
      split; [cbn [uplink]; replace (L + 1 - 1) with L by lia; auto|].
      change (len (@nil bw)) with 0 in Hlen'. rewrite len_cons. change (len (@nil bw)) with 0. lia.
    - rewrite Esl in H.
      destruct (cascade_from vsink vs_wr vs_count compress c s1 (e :: w_log st) deepest' L up) as [[[s2 lg2] blocks]| |] eqn:Ecas; cbn [bind] in H; try discriminate.
      injection H as <-. subst above. rewrite len_app, len_cons in Hlen'. change (len (@nil bw)) with 0 in Hlen'.
      apply uplink_app in Habove1. destruct Habove1 as [Hup Hroot]. cbn [uplink] in Hroot. destruct Hroot as [HrootI _].
      destruct (cascade_tree up s1 (e :: w_log st) deepest' L s2 lg2 blocks gl1 pes1 (ins ++ [(k, v)]) Ecas ltac:(lia) ltac:(lia) HG1 Hdeep1 Hup)
        as (gl' & pes' & A & B & C & C2 & C3).
      exists gl', pes'. split; [exact A|]. cbn [w_data w_idx]. split; [rewrite (C (L + 1) ltac:(lia)); exact Hd1|].
      cbn [rev]. rewrite rev_involutive.
      assert (Hbl : len blocks = L) by (rewrite len_length, C3; rewrite len_length in Hlen'; lia).
      split; [apply uplink_app; split; [exact B|]; cbn [uplink]; split; [|exact I]|].
      + rewrite Hbl. replace (L + 1 - L - 1) with 0 by lia. rewrite (C2 0 ltac:(lia)).
        replace (L - len up - 1) with 0 in HrootI by lia. exact HrootI.
      + rewrite len_cons, len_length, rev_length, <- len_length, Hbl. reflexivity.
  Qed.

  Lemma bw_ok_last_none w es : bw_ok w es -> bw_last w = None -> es = [].
  Proof.
    intros [_ _ Hl _ _ _ _] E. rewrite Hl in E. destruct es as [|e es]; [reflexivity|exfalso].
    destruct (last_opt (e :: es)) as [x|] eqn:El; [discriminate|].
    clear - El. revert e El. induction es as [|y es IH]; intros e El; [discriminate|]. cbn [last_opt] in El. eapply IH. exact El.
  Qed.

  (* the bottom-up flush of into_inner: afterwards nothing is pending at or above the level it started
     from, and the root block is the last block of the log *)
  Lemma flush_tree : forall up s lg cur lvl s' lg' off gl pes ins,
    flush_from vsink vs_wr vs_count compress c s lg cur lvl up = Done (s', lg', off) ->
    lvl = len up -> lvl <= L ->
    Gst s lg gl pes ins -> bw_okI cur (pes lvl) -> uplink pes lvl up ->
    exists gl' pes', Gst0 s' lg' gl' pes' ins /\ (forall k, k <= lvl -> pes' k = []) /\ (forall k, lvl < k -> pes' k = pes k) /\
      exists gl0 e0 es0, gl' = gl0 ++ [(e0, es0)] /\ em_level e0 = 0 /\ em_offset e0 = off /\ Forall nz gl0.
  Proof.
    induction up as [|parent up IH]; intros s lg cur lvl s' lg' off gl pes ins H Hlvl HL HG Hcur Hup; cbn [flush_from] in H.
    - change (len (@nil bw)) with 0 in Hlvl. subst lvl.
      assert (Hroot : forall s1 cur' e, cwb vsink vs_wr vs_count compress c s cur 0 = Done (s1, cur', e) ->
                exists gl' pes', Gst0 s1 (e :: lg) gl' pes' ins /\ (forall k, k <= 0 -> pes' k = []) /\ (forall k, 0 < k -> pes' k = pes k) /\
                  exists gl0 e0 es0, gl' = gl0 ++ [(e0, es0)] /\ em_level e0 = 0 /\ em_offset e0 = vs_count s /\ Forall nz gl0).
      { intros s1 cur' e Ec. destruct HG as ((Hs & Hm & He & HT) & Hnz). destruct Hcur as [Hcok Hci].
        pose proof (cwb_layout compress decompress c codec_ok s lg cur 0 s1 cur' e Ec Hs) as Hs1.
        pose proof (cwb_offset s cur 0 s1 cur' e Ec) as Hoff.
        destruct (cwb_spec vsink vs_wr vs_count compress c s cur 0 s1 cur' e Ec) as (Hf & Hel & _).
        exists (gl ++ [(e, pes 0)]), (upd pes 0 []).
        split; [split; [exact Hs1|]; split; [rewrite map_app; cbn [map fst rev]; rewrite Hm; reflexivity|];
                split; [apply Forall_app; split; [exact He|]; constructor; [|constructor]; apply (ents_intro _ _ cur); [split; assumption|exact Hf|intros _; exact Hel]|];
                apply TI_emit_root; assumption|].
        split; [intros k Hk; unfold upd; destruct (N.eqb_spec k 0); [reflexivity|lia]|].
        split; [intros k Hk; unfold upd; destruct (N.eqb_spec k 0); [lia|reflexivity]|].
        exists gl, e, (pes 0). auto. }
      destruct (bw_last cur) as [lk|];
        (destruct (cwb vsink vs_wr vs_count compress c s cur 0) as [[[s1 cur'] e]| |] eqn:Ec; cbn [bind] in H; try discriminate;
         injection H as <- <- <-; exact (Hroot _ _ _ eq_refl)).
    - rewrite len_cons in Hlvl. cbn [uplink] in Hup. destruct Hup as [Hpar Hup'].
      destruct (bw_last cur) as [lk|] eqn:El.
      + destruct (bw_insert parent lk (be_bytes 8 (vs_count s))) as [parent'| |] eqn:Ep; cbn [bind] in H; try discriminate.
        destruct (cwb vsink vs_wr vs_count compress c s cur lvl) as [[[s1 cur'] e]| |] eqn:Ec; cbn [bind] in H; try discriminate.
        destruct HG as ((Hs & Hm & He & HT) & Hnz). destruct Hcur as [Hcok Hci]. destruct Hpar as [Hpok Hpi].
        pose proof (cwb_layout compress decompress c codec_ok s lg cur lvl s1 cur' e Ec Hs) as Hs1.
        pose proof (cwb_offset s cur lvl s1 cur' e Ec) as Hoff.
        destruct (cwb_spec vsink vs_wr vs_count compress c s cur lvl s1 cur' e Ec) as (Hf & Hel & _).
        destruct (last_key_of cur (pes lvl) lk Hcok El) as [Hlk Hne].
        destruct (bw_insert_ok parent (pes (lvl - 1)) lk _ parent' Hpok Ep) as [Hpok' Hpi'].
        set (gl1 := gl ++ [(e, pes lvl)]).
        set (pes1 := upd (upd pes lvl []) (lvl - 1) (pes (lvl - 1) ++ [item_of (e, pes lvl)])).
        assert (Hitem : item_of (e, pes lvl) = (lk, be_bytes 8 (vs_count s))).
        { unfold item_of. cbn [fst snd]. rewrite Hlk, Hoff. reflexivity. }
        assert (HG1 : Gst s1 (e :: lg) gl1 pes1 ins).
        { split; [|unfold gl1; apply Forall_app; split; [exact Hnz|]; constructor; [unfold nz; cbn [fst]; lia|constructor]].
          split; [exact Hs1|]. split; [unfold gl1; rewrite map_app; cbn [map fst rev]; rewrite Hm; reflexivity|].
          split; [unfold gl1; apply Forall_app; split; [exact He|]; constructor; [|constructor];
                  apply (ents_intro _ _ cur); [split; assumption|exact Hf|intro Hx; exfalso; exact (Hne Hx)]|].
          unfold gl1, pes1. apply TI_emit; [exact HT | lia | exact Hel]. }
        assert (Hpar1 : bw_okI parent' (pes1 (lvl - 1))).
        { unfold pes1, upd. rewrite N.eqb_refl. rewrite Hitem. split; [exact Hpok'|congruence]. }
        assert (Hup1 : uplink pes1 (lvl - 1) up).
        { apply (uplink_ext pes pes1 up (lvl - 1)); [lia| |exact Hup'].
          intros k Hk. unfold pes1, upd. destruct (N.eqb_spec k (lvl - 1)); [lia|]. destruct (N.eqb_spec k lvl); [lia|reflexivity]. }
        destruct (IH s1 (e :: lg) parent' (lvl - 1) s' lg' off gl1 pes1 ins H ltac:(lia) ltac:(lia) HG1 Hpar1 Hup1) as (gl' & pes' & A & B & C & Dd).
        exists gl', pes'. split; [exact A|]. split; [|split; [|exact Dd]].
        * intros k Hk. destruct (N.eq_dec k lvl) as [->|Hne'].
          -- rewrite (C lvl ltac:(lia)). unfold pes1, upd. destruct (N.eqb_spec lvl (lvl - 1)); [lia|]. rewrite N.eqb_refl. reflexivity.
          -- apply B. lia.
        * intros k Hk. rewrite (C k ltac:(lia)). unfold pes1, upd.
          destruct (N.eqb_spec k (lvl - 1)); [lia|]. destruct (N.eqb_spec k lvl); [lia|reflexivity].
      + (* nothing pending at this level *)
        destruct Hcur as [Hcok Hci]. pose proof (bw_ok_last_none cur (pes lvl) Hcok El) as Hempty.
        destruct (IH s lg parent (lvl - 1) s' lg' off gl pes ins H ltac:(lia) ltac:(lia) HG Hpar Hup') as (gl' & pes' & A & B & C & Dd).
        exists gl', pes'. split; [exact A|]. split; [|split; [|exact Dd]].
        * intros k Hk. destruct (N.eq_dec k lvl) as [->|Hne']; [rewrite (C lvl ltac:(lia)); exact Hempty|apply B; lia].
        * intros k Hk. apply C. lia.
  Qed.

  Lemma TI_ext gl pes pes' ins : (forall k, k <= L + 1 -> pes' k = pes k) -> TI L gl pes ins -> TI L gl pes' ins.
  Proof.
    intros Hext [H1 H2]. split.
    - intros k Hk. rewrite (Hext k ltac:(lia)). apply H1. exact Hk.
    - rewrite (Hext (L + 1) ltac:(lia)). exact H2.
  Qed.

  Lemma vs_wr_bytes s b s' : vs_wr s b = Done s' -> vs_bytes s' = vs_bytes s ++ b /\ vs_count s' = vs_count s + len b.
  Proof. unfold vs_wr. intro H. injection H as <-. split; [apply vs_bytes_wr|reflexivity]. Qed.

  (* Writer::into_inner: everything pending is flushed, the root last, then the trailer *)
  Theorem w_finish_tree st s lg m gl pes ins :
    w_finish vsink vs_wr vs_fl vs_count compress c st = Done (s, lg, m) -> WT st gl pes ins ->
    exists gl' body,
      laid_out compress c (rev lg) body /\ map fst gl' = rev lg /\ Forall ents gl' /\
      TI L gl' (fun _ => []) ins /\
      vs_bytes s = body ++ trailer_bytes m /\ vs_count s = len (vs_bytes s) /\
      m_version m = FormatV2 /\ m_codec m = wc_codec c /\ m_count m = w_count st /\ m_levels m = u8 (len (w_idx st) - 1) /\
      exists gl0 e0 es0, gl' = gl0 ++ [(e0, es0)] /\ em_level e0 = 0 /\ em_offset e0 = m_root m /\ Forall nz gl0.
  Proof.
    intros H (HG & Hd & Hidx & Hlen). unfold w_finish in H.
    assert (Hlen' : len (rev (w_idx st)) = L + 1) by (rewrite len_length, rev_length, <- len_length; exact Hlen).
    (* step 1: the pending data block *)
    assert (Step1 : forall s1 lg1 idx1,
      (match bw_last (w_data st) with
       | Some last_key =>
         match rev (w_idx st) with
         | [] => Done (w_sink st, w_log st, w_idx st)
         | deepest :: above =>
           do deepest' <- bw_insert deepest last_key (be_bytes 8 (vs_count (w_sink st)));
           do r <- cwb vsink vs_wr vs_count compress c (w_sink st) (w_data st) (L + 1);
           let '(s1, _, e) := r in Done (s1, e :: w_log st, rev (deepest' :: above))
         end
       | None => Done (w_sink st, w_log st, w_idx st)
       end) = Done (s1, lg1, idx1) ->
      exists gl1 pes1, Gst s1 lg1 gl1 pes1 ins /\ pes1 (L + 1) = [] /\ uplink pes1 (L + 1) (rev idx1) /\ len idx1 = L + 1).
    { intros s1 lg1 idx1 E.
      destruct (rev (w_idx st)) as [|deepest above] eqn:Er; [change (len (@nil bw)) with 0 in Hlen'; lia|].
      destruct (bw_last (w_data st)) as [last_k|] eqn:El.
      - cbn [uplink] in Hidx. destruct Hidx as [[Hpok Hpi] Habove]. replace (L + 1 - 1) with L in * by lia.
        destruct Hd as [Hdok Hdi].
        destruct (bw_insert deepest last_k (be_bytes 8 (vs_count (w_sink st)))) as [deepest'| |] eqn:Ep; cbn [bind] in E; try discriminate.
        destruct (cwb vsink vs_wr vs_count compress c (w_sink st) (w_data st) (L + 1)) as [[[s2 d'] e]| |] eqn:Ec; cbn [bind] in E; try discriminate.
        injection E as <- <- <-.
        destruct HG as ((Hs & Hm & He & HT) & Hnz).
        pose proof (cwb_layout compress decompress c codec_ok _ _ (w_data st) (L + 1) s2 d' e Ec Hs) as Hs1.
        pose proof (cwb_offset _ (w_data st) (L + 1) s2 d' e Ec) as Hoff.
        destruct (cwb_spec vsink vs_wr vs_count compress c _ (w_data st) (L + 1) s2 d' e Ec) as (Hf & Hel & _).
        destruct (last_key_of (w_data st) (pes (L + 1)) last_k Hdok El) as [Hlk Hne].
        destruct (bw_insert_ok deepest (pes L) last_k _ deepest' Hpok Ep) as [Hpok' Hpi'].
        set (gl1 := gl ++ [(e, pes (L + 1))]).
        set (pes1 := upd (upd pes (L + 1) []) (L + 1 - 1) (pes (L + 1 - 1) ++ [item_of (e, pes (L + 1))])).
        assert (Hitem : item_of (e, pes (L + 1)) = (last_k, be_bytes 8 (vs_count (w_sink st)))).
        { unfold item_of. cbn [fst snd]. rewrite Hlk, Hoff. reflexivity. }
        exists gl1, pes1. split.
        + split; [|unfold gl1; apply Forall_app; split; [exact Hnz|]; constructor; [unfold nz; cbn [fst]; lia|constructor]].
          split; [exact Hs1|]. split; [unfold gl1; rewrite map_app; cbn [map fst rev]; rewrite Hm; reflexivity|].
          split; [unfold gl1; apply Forall_app; split; [exact He|]; constructor; [|constructor];
                  apply (ents_intro _ _ (w_data st)); [split; assumption|exact Hf|intro Hx; exfalso; exact (Hne Hx)]|].
          unfold gl1, pes1. apply TI_emit; [exact HT | lia | exact Hel].
        + split; [unfold pes1, upd; destruct (N.eqb_spec (L + 1) (L + 1 - 1)); [lia|]; rewrite N.eqb_refl; reflexivity|].
          assert (Erv : rev (rev (deepest' :: above)) = deepest' :: above) by apply rev_involutive.
          cbn [rev] in Erv. cbn [rev]. rewrite Erv. split.
          * cbn [uplink]. replace (L + 1 - 1) with L by lia. split.
            -- unfold pes1, upd. replace (L + 1 - 1) with L by lia. rewrite N.eqb_refl. rewrite Hitem. split; [exact Hpok'|congruence].
            -- rewrite len_cons in Hlen'. apply (uplink_ext pes pes1); [lia| |exact Habove].
               intros j Hj. unfold pes1, upd. destruct (N.eqb_spec j (L + 1 - 1)); [lia|]. destruct (N.eqb_spec j (L + 1)); [lia|reflexivity].
          * rewrite len_length, app_length, rev_length. cbn [length]. rewrite len_length in Hlen'. cbn [length] in Hlen'. lia.
      - injection E as <- <- <-. exists gl, pes. split; [exact HG|].
        split; [exact (bw_ok_last_none _ _ (proj1 Hd) El)|]. rewrite Er. split; [exact Hidx|exact Hlen]. }
    match type of H with bind ?X _ = _ => destruct X as [[[s1 lg1] idx1]| |] eqn:E1; cbn [bind] in H; try discriminate end.
    destruct (Step1 s1 lg1 idx1 eq_refl) as (gl1 & pes1 & HG1 & HD1 & Hup1 & Hlen1).
    destruct (rev idx1) as [|cur up] eqn:Er1.
    { apply (f_equal (@length bw)) in Er1. rewrite rev_length in Er1. rewrite len_length in Hlen1. cbn [length] in Er1. lia. }
    assert (Hlup : L = len up).
    { apply (f_equal (@length bw)) in Er1. rewrite rev_length in Er1. cbn [length] in Er1. rewrite len_length in *. lia. }
    cbn [uplink] in Hup1. destruct Hup1 as [Hcur Hup]. replace (L + 1 - 1) with L in * by lia.
    destruct (flush_from vsink vs_wr vs_count compress c s1 lg1 cur L up) as [[[s2 lg2] root_off]| |] eqn:Ef; cbn [bind] in H; try discriminate.
    destruct (flush_tree up s1 lg1 cur L s2 lg2 root_off gl1 pes1 ins Ef Hlup ltac:(lia) HG1 Hcur Hup) as (gl' & pes' & (Hs2 & Hm2 & He2 & HT2) & B & C & Droot).
    (* the trailer *)
    repeat (match type of H with bind (vs_wr ?a ?b) _ = _ => let E := fresh "Ew" in destruct (vs_wr a b) as [?s| |] eqn:E; cbn [bind] in H; try discriminate end).
    unfold vs_fl in H. cbn [bind] in H. injection H as <- <- <-.
    apply vs_wr_bytes in Ew, Ew0, Ew1, Ew2, Ew3.
    destruct Ew as [B1 C1], Ew0 as [B2 C2], Ew1 as [B3 C3], Ew2 as [B4 C4], Ew3 as [B5 C5].
    destruct Hs2 as [Hlo Hcnt].
    exists gl', (vs_bytes s2). split; [exact Hlo|]. split; [exact Hm2|]. split; [exact He2|].
    split; [apply (TI_ext gl' pes'); [|exact HT2]; intros k Hk; destruct (N.le_gt_cases k L); [symmetry; apply B; assumption|rewrite (C k ltac:(lia)); assert (k = L + 1) by lia; subst k; symmetry; exact HD1]|].
    cbn [m_root m_codec m_count m_levels m_version] in *.
    split; [rewrite B5, B4, B3, B2, B1; unfold trailer_bytes; cbn [m_version m_root m_codec m_count m_levels]; rewrite <- !app_assoc; reflexivity|].
    split; [rewrite C5, C4, C3, C2, C1, Hcnt, B5, B4, B3, B2, B1; rewrite !len_app; lia|].
    split; [reflexivity|]. split; [reflexivity|]. split; [reflexivity|].
    split; [|exact Droot].
    f_equal. f_equal. 
    (* idx1 has the same length as w_idx st *)
    rewrite Hlen1, Hlen. reflexivity.
  Qed.

  Lemma uplink_repeat pes n lvl : (forall k, pes k = []) -> uplink pes lvl (repeat (bw_new (wc_interval c)) n).
  Proof.
    intro Hp. revert lvl; induction n as [|n IH]; intro lvl; cbn [repeat uplink]; [exact I|].
    split; [|apply IH]. rewrite Hp. split; [apply bw_new_ok|reflexivity].
  Qed.

  Lemma repeat_rev' {A} (x : A) n : rev (repeat x n) = repeat x n.
  Proof.
    induction n as [|n IH]; [reflexivity|]. cbn [repeat rev]. rewrite IH.
    clear IH. induction n as [|n IH]; [reflexivity|]. cbn [repeat app]. rewrite IH. reflexivity.
  Qed.

  Lemma WT_init : L < 256 -> WT (w_new vsink c vs_empty) [] (fun _ => []) [].
  Proof.
    intro HL. unfold WT, w_new. cbn [w_sink w_log w_data w_idx].
    split; [split; [|constructor]; split; [split; [constructor|reflexivity]|]; split; [reflexivity|]; split; [constructor|apply TI_init]|].
    split; [split; [apply bw_new_ok|reflexivity]|].
    split; [rewrite repeat_rev'; apply uplink_repeat; reflexivity|].
    rewrite len_length, repeat_length. lia.
  Qed.

  Lemma w_inserts_at_tree : forall es st i j st' gl pes ins,
    w_inserts_at vsink vs_wr vs_count compress c st es i = (j, Done st') -> WT st gl pes ins ->
    exists gl' pes', WT st' gl' pes' (ins ++ es).
  Proof.
    induction es as [|[k v] es IH]; intros st i j st' gl pes ins H HW; cbn [w_inserts_at] in H.
    - injection H as _ <-. exists gl, pes. rewrite app_nil_r. exact HW.
    - destruct (w_insert vsink vs_wr vs_count compress c st k v) as [st1| |] eqn:E; try discriminate.
      destruct (w_insert_tree st k v st1 gl pes ins E HW) as (gl1 & pes1 & HW1).
      destruct (IH st1 (N.succ i) j st' gl1 pes1 _ H HW1) as (gl' & pes' & HW').
      exists gl', pes'. rewrite <- app_assoc in HW'. exact HW'.
  Qed.

  Lemma w_insert_count st k v st' :
    w_insert vsink vs_wr vs_count compress c st k v = Done st' -> w_count st' = w_count st + 1.
  Proof.
    unfold w_insert. destruct (bw_insert (w_data st) k v) as [d| |]; cbn [bind]; try discriminate.
    destruct (wc_block_size c <=? bw_size d); [|intro H; injection H as <-; reflexivity].
    destruct (bw_last d) as [lk|]; [|intro H; injection H as <-; reflexivity].
    destruct (rev (w_idx st)) as [|deepest above]; [intro H; injection H as <-; reflexivity|].
    destruct (bw_insert deepest lk _) as [deepest'| |]; cbn [bind]; try discriminate.
    destruct (cwb vsink vs_wr vs_count compress c (w_sink st) d (L + 1)) as [[[s1 d'] e]| |]; cbn [bind]; try discriminate.
    destruct (rev (deepest' :: above)) as [|root sl]; [discriminate|].
    destruct (rev sl) as [|cur up]; [intro H; injection H as <-; reflexivity|].
    destruct (cascade_from vsink vs_wr vs_count compress c s1 _ cur L up) as [[[s2 lg2] blocks]| |]; cbn [bind]; try discriminate.
    intro H; injection H as <-; reflexivity.
  Qed.

  Lemma w_inserts_at_count : forall es st i j st',
    w_inserts_at vsink vs_wr vs_count compress c st es i = (j, Done st') -> w_count st' = w_count st + len es.
  Proof.
    induction es as [|[k v] es IH]; intros st i j st' H; cbn [w_inserts_at] in H.
    - injection H as _ <-. change (len (@nil entry)) with 0. lia.
    - destruct (w_insert vsink vs_wr vs_count compress c st k v) as [st1| |] eqn:E; try discriminate.
      rewrite (IH _ _ _ _ H), (w_insert_count _ _ _ _ E), len_cons. lia.
  Qed.

  (* the whole run on a plain sink: the file is the frames of the emitted blocks followed by the
     trailer; the blocks form the index tree over exactly the inserted entries *)
  Theorem w_run_tree es i s lg m : L < 256 ->
    w_run_gen vsink vs_wr vs_fl vs_count compress c vs_empty es = (i, Done (s, lg, m)) ->
    exists gl body,
      laid_out compress c (rev lg) body /\ map fst gl = rev lg /\ Forall ents gl /\
      TI L gl (fun _ => []) es /\
      vs_bytes s = body ++ trailer_bytes m /\ vs_count s = len (vs_bytes s) /\
      m_version m = FormatV2 /\ m_codec m = wc_codec c /\ m_count m = len es /\ m_levels m = u8 L /\
      exists gl0 e0 es0, gl = gl0 ++ [(e0, es0)] /\ em_level e0 = 0 /\ em_offset e0 = m_root m /\ Forall nz gl0.
  Proof.
    intros HL H. unfold w_run_gen in H.
    destruct (w_inserts_at vsink vs_wr vs_count compress c (w_new vsink c vs_empty) es 0) as [j [st| |]] eqn:E; try (injection H as _ H; discriminate).
    injection H as _ H.
    destruct (w_inserts_at_tree es _ 0 j st [] (fun _ => []) [] E (WT_init HL)) as (gl1 & pes1 & HW1). cbn [app] in HW1.
    destruct (w_finish_tree st s lg m gl1 pes1 es H HW1) as (gl' & body & A1 & A2 & A3 & A4 & A5 & A6 & A7 & A8 & A9 & A10 & A11).
    exists gl', body. repeat (split; [assumption|]).
    split; [rewrite A9, (w_inserts_at_count _ _ _ _ _ E); unfold w_new; cbn [w_count]; lia|].
    split; [|exact A11].
    rewrite A10. destruct HW1 as (_ & _ & _ & Hlen). rewrite Hlen. f_equal. lia.
  Qed.
End WTree.
