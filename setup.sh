#!/bin/sh
# setup_cmd: build everything from files on disk, offline.
set -e
cd "$(dirname "$0")"
export CARGO_NET_OFFLINE=true
[ -f harness/Cargo.lock ] || cp /repo/Cargo.lock harness/Cargo.lock
python3 ./check build
