(* C04 / C05 on files produced by the writer: W composed with R composed with the iterator theorems. *)
From Coq Require Import Lia ZArith ZifyN ZifyBool ZifyNat.
From Grenad.gen Require Import Consts.
From Grenad.model Require Import Base Block Trailer Writer Reader Spec Iter.
From Grenad.proofs Require Import BaseProofs ReaderRefine WriterStore IterRefine.

Section Written.
  Variable compress : N -> N -> bytes -> outcome bytes.
  Variable decompress : N -> bytes -> outcome bytes.
  Variable c : wcfg.
  Hypothesis codec_ok : forall b z, compress (wc_codec c) (wc_level c) b = Done z -> decompress (wc_codec c) z = Done b.
  Variables (es : list entry) (i : N) (s : vsink) (lg : list emitted) (m : meta).
  Hypothesis HL : wc_levels c < 256.
  Hypothesis Hint : 1 <= wc_interval c.
  Hypothesis Hrun : w_run_gen vsink vs_wr vs_fl vs_count compress c vs_empty es = (i, Done (s, lg, m)).
  Hypothesis Hne : es <> [].
  Hypothesis Hsorted : sorted_strictb (map fst es) = true.
  Hypothesis H64 : len (vs_bytes s) < 2^64.
  Hypothesis Hmem : mem_ok lg.

  Notation step := (cstep (load_block decompress (vs_bytes s) (m_codec m)) (m_root m) (m_levels m)).

  Lemma written_store_ex : exists bs,
    wf_store (load_block decompress (vs_bytes s) (m_codec m)) (m_root m) (m_levels m) bs /\ content (m_root m) (m_levels m) bs = es.
  Proof.
    destruct (written_file_wf compress decompress c codec_ok es i s lg m HL Hint Hrun Hne Hsorted H64 Hmem)
      as (bs & W & Ec & _ & Hc & _ & Hlv & _).
    exists bs. rewrite Hc, Hlv. auto.
  Qed.

  Theorem written_range_fwd lo hi fuel : (S (length es) < fuel)%nat ->
    collect (range_next step lo hi) fuel iter_new = Done (range_spec es lo hi).
  Proof. destruct written_store_ex as (bs & W & Ec). rewrite <- Ec. exact (R_range_fwd _ _ _ _ W lo hi fuel). Qed.

  Theorem written_range_bwd lo hi fuel : (S (length es) < fuel)%nat ->
    collect (rev_range_next step lo hi) fuel iter_new = Done (rev (range_spec es lo hi)).
  Proof. destruct written_store_ex as (bs & W & Ec). rewrite <- Ec. exact (R_range_bwd _ _ _ _ W lo hi fuel). Qed.

  Theorem written_prefix_fwd p fuel : (S (length es) < fuel)%nat ->
    collect (prefix_next step p) fuel iter_new = Done (prefix_spec es p).
  Proof. destruct written_store_ex as (bs & W & Ec). rewrite <- Ec. exact (R_prefix_fwd _ _ _ _ W p fuel). Qed.

  Theorem written_prefix_bwd p fuel : Forall (fun e => wf_bytes (fst e)) es -> wf_bytes p -> (S (length es) < fuel)%nat ->
    collect (rev_prefix_next step p) fuel iter_new = Done (rev (prefix_spec es p)).
  Proof. destruct written_store_ex as (bs & W & Ec). rewrite <- Ec. exact (R_prefix_bwd _ _ _ _ W p fuel). Qed.
End Written.
