(* Basic facts about model/Base.v: N-indexed list functions agree with the standard ones,
   fixed-width integer encodings round-trip, lexicographic order is a strict total order. *)
From Coq Require Import Lia ZArith ZifyN ZifyBool ZifyNat.
From Grenad.model Require Import Base.
Ltac Zify.zify_post_hook ::= Z.div_mod_to_equations.

Arguments N.add : simpl never. Arguments N.sub : simpl never. Arguments N.mul : simpl never.
Arguments N.div : simpl never. Arguments N.modulo : simpl never. Arguments N.pow : simpl never.
Arguments N.eqb : simpl never. Arguments N.ltb : simpl never. Arguments N.leb : simpl never.
Arguments N.succ : simpl never. Arguments N.pred : simpl never. Arguments N.of_nat : simpl never.

Lemma len_acc_spec {A} (l : list A) acc : len_acc l acc = acc + N.of_nat (length l).
Proof.
  revert acc; induction l as [|x l IH]; intro acc; cbn [len_acc length].
  - lia.
  - rewrite IH. lia.
Qed.
Lemma len_length {A} (l : list A) : len l = N.of_nat (length l).
Proof. unfold len. rewrite len_acc_spec. lia. Qed.
Lemma len_nil {A} : len (@nil A) = 0. Proof. reflexivity. Qed.
Lemma len_cons {A} (x : A) l : len (x :: l) = len l + 1.
Proof. rewrite !len_length. cbn [length]. lia. Qed.
Lemma len_app {A} (a b : list A) : len (a ++ b) = len a + len b.
Proof. rewrite !len_length, app_length. lia. Qed.

Lemma skipnN_skipn {A} (n : N) (l : list A) : skipnN n l = skipn (N.to_nat n) l.
Proof.
  revert n; induction l as [|x l IH]; intro n; cbn [skipnN].
  - destruct (N.to_nat n); reflexivity.
  - destruct (N.eqb_spec n 0) as [->|Hn]; [reflexivity|].
    rewrite IH. replace (N.to_nat n) with (S (N.to_nat (N.pred n))) by lia. reflexivity.
Qed.
Lemma firstnN_firstn {A} (n : N) (l : list A) : firstnN n l = firstn (N.to_nat n) l.
Proof.
  revert n; induction l as [|x l IH]; intro n; cbn [firstnN].
  - destruct (N.to_nat n); reflexivity.
  - destruct (N.eqb_spec n 0) as [->|Hn]; [reflexivity|].
    rewrite IH. replace (N.to_nat n) with (S (N.to_nat (N.pred n))) by lia. reflexivity.
Qed.
Lemma nthN_nth_error {A} (n : N) (l : list A) : nthN n l = nth_error l (N.to_nat n).
Proof.
  revert n; induction l as [|x l IH]; intro n; cbn [nthN].
  - destruct (N.to_nat n); reflexivity.
  - destruct (N.eqb_spec n 0) as [->|Hn]; [reflexivity|].
    rewrite IH. replace (N.to_nat n) with (S (N.to_nat (N.pred n))) by lia. reflexivity.
Qed.

Lemma skipnN_app {A} (a b : list A) : skipnN (len a) (a ++ b) = b.
Proof. rewrite skipnN_skipn, len_length, Nat2N.id. apply skipn_app_exact || (rewrite skipn_app, skipn_all, Nat.sub_diag; reflexivity). Qed.
Lemma firstnN_app {A} (a b : list A) : firstnN (len a) (a ++ b) = a.
Proof. rewrite firstnN_firstn, len_length, Nat2N.id. rewrite firstn_app, firstn_all, Nat.sub_diag, firstn_O. apply app_nil_r. Qed.
Lemma skipnN_0 {A} (l : list A) : skipnN 0 l = l.
Proof. rewrite skipnN_skipn. reflexivity. Qed.
Lemma skipnN_all {A} (l : list A) n : len l <= n -> skipnN n l = [].
Proof. intro H. rewrite skipnN_skipn. apply skipn_all2. rewrite len_length in H. lia. Qed.
Lemma firstnN_all {A} (l : list A) n : len l <= n -> firstnN n l = l.
Proof. intro H. rewrite firstnN_firstn. apply firstn_all2. rewrite len_length in H. lia. Qed.
Lemma skipnN_add {A} (a b : N) (l : list A) : skipnN (a + b) l = skipnN b (skipnN a l).
Proof.
  rewrite !skipnN_skipn. replace (N.to_nat (a + b)) with (N.to_nat a + N.to_nat b)%nat by lia.
  generalize (N.to_nat a) as x, (N.to_nat b) as y. clear a b. intros x; revert l.
  induction x as [|x IH]; intros l y; [reflexivity|]. destruct l as [|h l]; cbn [skipn plus].
  - destruct y; reflexivity.
  - apply IH.
Qed.
Lemma len_skipnN {A} (n : N) (l : list A) : len (skipnN n l) = len l - n.
Proof. rewrite skipnN_skipn, !len_length, skipn_length. lia. Qed.
Lemma len_firstnN {A} (n : N) (l : list A) : len (firstnN n l) = N.min n (len l).
Proof. rewrite firstnN_firstn, !len_length, firstn_length. lia. Qed.

(* ---- fixed-width integers ---- *)
Lemma le_bytes_length n x : length (le_bytes n x) = n.
Proof. revert x; induction n as [|n IH]; intro x; cbn [le_bytes length]; [reflexivity|]. rewrite IH. reflexivity. Qed.
Lemma le_bytes_wf n x : wf_bytes (le_bytes n x).
Proof.
  revert x; induction n as [|n IH]; intro x; cbn [le_bytes]; constructor.
  - apply N.mod_lt. lia.
  - apply IH.
Qed.
Lemma le_decode_bytes n x : le_decode (le_bytes n x) = x mod 256 ^ N.of_nat n.
Proof.
  revert x; induction n as [|n IH]; intro x; cbn [le_bytes].
  - cbn. rewrite N.mod_1_r. reflexivity.
  - unfold le_decode in *. cbn [fold_right]. rewrite IH.
    replace (N.of_nat (S n)) with (N.succ (N.of_nat n)) by lia. rewrite N.pow_succ_r'.
    set (p := 256 ^ N.of_nat n). assert (0 < p) by (apply N.neq_0_lt_0; apply N.pow_nonzero; lia).
    rewrite N.mod_mul_r by lia. lia.
Qed.
Lemma le_decode_app a b : le_decode (a ++ b) = le_decode a + 256 ^ len a * le_decode b.
Proof.
  induction a as [|x a IH]; unfold le_decode in *; cbn [app fold_right].
  - change (len (@nil N)) with 0. change (256 ^ 0) with 1. lia.
  - rewrite IH, len_cons. rewrite N.pow_add_r. change (256 ^ 1) with 256. lia.
Qed.
Lemma be_bytes_length n x : length (be_bytes n x) = n.
Proof. unfold be_bytes. rewrite rev_length. apply le_bytes_length. Qed.
Lemma be_decode_rev l : be_decode (rev l) = le_decode l.
Proof.
  unfold be_decode, le_decode. rewrite fold_left_rev_right || idtac.
  induction l as [|x l IH]; [reflexivity|]. cbn [rev fold_right].
  rewrite fold_left_app. cbn [fold_left]. rewrite IH. lia.
Qed.
Lemma be_decode_bytes n x : be_decode (be_bytes n x) = x mod 256 ^ N.of_nat n.
Proof. unfold be_bytes. rewrite be_decode_rev. apply le_decode_bytes. Qed.

(* ---- lexicographic order ---- *)
Lemma lex_compare_refl a : lex_compare a a = Eq.
Proof. induction a as [|x a IH]; [reflexivity|]. cbn [lex_compare]. rewrite N.compare_refl. exact IH. Qed.
Lemma lex_compare_eq a b : lex_compare a b = Eq -> a = b.
Proof.
  revert b; induction a as [|x a IH]; intros [|y b]; cbn [lex_compare]; try discriminate; [reflexivity|].
  destruct (N.compare_spec x y) as [->|H|H]; try discriminate. intro E. f_equal. apply IH. exact E.
Qed.
Lemma lex_compare_antisym a b : lex_compare b a = CompOpp (lex_compare a b).
Proof.
  revert b; induction a as [|x a IH]; intros [|y b]; cbn [lex_compare]; try reflexivity.
  rewrite (N.compare_antisym x y). destruct (x ?= y); cbn [CompOpp]; auto.
Qed.
Lemma lex_compare_trans_lt a b c : lex_compare a b = Lt -> lex_compare b c = Lt -> lex_compare a c = Lt.
Proof.
  revert b c; induction a as [|x a IH]; intros [|y b] [|z c]; cbn [lex_compare]; try discriminate; try reflexivity.
  destruct (N.compare_spec x y) as [->|H1|H1]; try discriminate.
  - destruct (N.compare_spec y z) as [->|H2|H2]; try discriminate; [apply IH | reflexivity].
  - intros _. destruct (N.compare_spec y z) as [->|H2|H2]; try discriminate.
    + intros _. destruct (N.compare_spec x z); try lia; reflexivity.
    + intros _. destruct (N.compare_spec x z); try lia; reflexivity.
Qed.

Lemma bytes_ltb_irrefl a : bytes_ltb a a = false.
Proof. unfold bytes_ltb. rewrite lex_compare_refl. reflexivity. Qed.
Lemma bytes_ltb_trans a b c : bytes_ltb a b = true -> bytes_ltb b c = true -> bytes_ltb a c = true.
Proof.
  unfold bytes_ltb. destruct (lex_compare a b) eqn:E1; try discriminate.
  destruct (lex_compare b c) eqn:E2; try discriminate. intros _ _.
  rewrite (lex_compare_trans_lt a b c E1 E2). reflexivity.
Qed.
Lemma bytes_eqb_eq a b : bytes_eqb a b = true <-> a = b.
Proof.
  unfold bytes_eqb. split.
  - destruct (lex_compare a b) eqn:E; try discriminate. intros _. apply lex_compare_eq. exact E.
  - intros ->. rewrite lex_compare_refl. reflexivity.
Qed.
Lemma bytes_leb_ltb a b : bytes_leb a b = negb (bytes_ltb b a).
Proof. unfold bytes_leb, bytes_ltb. rewrite (lex_compare_antisym a b). destruct (lex_compare a b); reflexivity. Qed.
Lemma bytes_total a b : bytes_ltb a b = true \/ a = b \/ bytes_ltb b a = true.
Proof.
  unfold bytes_ltb. rewrite (lex_compare_antisym a b). destruct (lex_compare a b) eqn:E; cbn [CompOpp]; auto.
  right; left. apply lex_compare_eq. exact E.
Qed.
