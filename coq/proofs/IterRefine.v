(* C04 / C05: the range and prefix iterators over any cursor step function that refines the abstract
   cursor (Spec.aspec) yield exactly the filter of the content.  Generic in the step function: the
   only facts used about the cursor are the refinement statement R_step provides. *)
From Coq Require Import Lia ZArith ZifyN ZifyBool ZifyNat Sorted.
From Grenad.gen Require Import Consts.
From Grenad.model Require Import Base Block Reader Spec Iter.
From Grenad.proofs Require Import BaseProofs SortedFacts BlockProofs BlockCursorProofs SpecProofs IterProofs ReaderRefine.
Ltac Zify.zify_post_hook ::= Z.div_mod_to_equations.

Fixpoint takew {A} (f : A -> bool) (l : list A) : list A :=
  match l with [] => [] | x :: r => if f x then x :: takew f r else [] end.
Fixpoint dropw {A} (f : A -> bool) (l : list A) : list A :=
  match l with [] => [] | x :: r => if f x then dropw f r else l end.

Lemma dropw_length {A} (f : A -> bool) l : (length (dropw f l) <= length l)%nat.
Proof. induction l as [|x r IH]; cbn [dropw length]; [lia|]. destruct (f x); cbn [length]; lia. Qed.

Lemma dropw_skipn {A} (f : A -> bool) l : skipn (length l - length (dropw f l)) l = dropw f l.
Proof.
  induction l as [|x r IH]; [reflexivity|]. cbn [dropw]. destruct (f x).
  - pose proof (dropw_length f r). replace (length (x :: r) - length (dropw f r))%nat with (S (length r - length (dropw f r))) by (cbn [length]; lia).
    cbn [skipn]. exact IH.
  - rewrite Nat.sub_diag. reflexivity.
Qed.

Lemma takew_length {A} (f : A -> bool) l : (length (takew f l) <= length l)%nat.
Proof. induction l as [|x r IH]; cbn [takew length]; [lia|]. destruct (f x); cbn [length]; lia. Qed.

Lemma takew_firstn {A} (f : A -> bool) l : firstn (length (takew f l)) l = takew f l.
Proof. induction l as [|x r IH]; [reflexivity|]. cbn [takew]. destruct (f x); [cbn [length firstn]; rewrite IH|]; reflexivity. Qed.

Lemma filter_all {A} (f : A -> bool) l : (forall x, In x l -> f x = true) -> filter f l = l.
Proof.
  induction l as [|x r IH]; intro H; [reflexivity|]. cbn [filter]. rewrite (H x ltac:(left; reflexivity)).
  f_equal. apply IH. intros y Hy. apply H. right. exact Hy.
Qed.
Lemma filter_none {A} (f : A -> bool) l : (forall x, In x l -> f x = false) -> filter f l = [].
Proof.
  induction l as [|x r IH]; intro H; [reflexivity|]. cbn [filter]. rewrite (H x ltac:(left; reflexivity)).
  apply IH. intros y Hy. apply H. right. exact Hy.
Qed.

(* on a list sorted by R: dropping while a predicate that is upward closed fails is filtering by it;
   taking while a downward-closed predicate holds is filtering by it *)
Lemma dropw_filter {A} (R : A -> A -> Prop) (f : A -> bool) l : StronglySorted R l ->
  (forall x y, R x y -> f x = true -> f y = true) -> dropw (fun x => negb (f x)) l = filter f l.
Proof.
  intros Hs Hup. induction Hs as [|x r Hs IH Hf]; [reflexivity|]. cbn [dropw filter].
  destruct (f x) eqn:E; cbn [negb]; [|exact IH].
  f_equal. symmetry. apply filter_all. intros y Hy. rewrite Forall_forall in Hf. exact (Hup x y (Hf y Hy) E).
Qed.
Lemma takew_filter {A} (R : A -> A -> Prop) (g : A -> bool) l : StronglySorted R l ->
  (forall x y, R x y -> g y = true -> g x = true) -> takew g l = filter g l.
Proof.
  intros Hs Hdown. induction Hs as [|x r Hs IH Hf]; [reflexivity|]. cbn [takew filter].
  destruct (g x) eqn:E; [f_equal; exact IH|].
  symmetry. apply filter_none. intros y Hy. rewrite Forall_forall in Hf.
  destruct (g y) eqn:Ey; [|reflexivity]. rewrite (Hdown x y (Hf y Hy) Ey) in E. discriminate.
Qed.
Lemma SS_filter {A} (R : A -> A -> Prop) (f : A -> bool) l : StronglySorted R l -> StronglySorted R (filter f l).
Proof.
  induction 1 as [|x r Hs IH Hf]; [constructor|]. cbn [filter]. destruct (f x); [|exact IH].
  constructor; [exact IH|]. rewrite Forall_forall in *. intros y Hy. apply filter_In in Hy. apply Hf. tauto.
Qed.
Lemma SS_rev {A} (R : A -> A -> Prop) l : StronglySorted R l -> StronglySorted (fun x y => R y x) (rev l).
Proof.
  induction 1 as [|x r Hs IH Hf]; [constructor|]. cbn [rev].
  assert (G : forall l1 a, StronglySorted (fun x y => R y x) l1 -> Forall (fun y => R a y) (rev l1) -> StronglySorted (fun x y => R y x) (l1 ++ [a])).
  { clear. induction l1 as [|b l1 IH]; intros a Hs Hf; cbn [app]; [constructor; constructor|].
    inversion Hs as [|? ? Hs' Hf']; subst. cbn [rev] in Hf. apply Forall_app in Hf. destruct Hf as [Hf1 Hf2].
    constructor; [apply IH; assumption|]. apply Forall_app. split; [exact Hf'|]. inversion Hf2; subst. constructor; [assumption|constructor]. }
  apply G; [exact IH|]. rewrite rev_involutive. exact Hf.
Qed.
Lemma filter_filter {A} (f g : A -> bool) l : filter g (filter f l) = filter (fun x => f x && g x) l.
Proof.
  induction l as [|x r IH]; [reflexivity|]. cbn [filter]. destruct (f x); cbn [andb filter]; [|exact IH].
  destruct (g x); [f_equal|]; exact IH.
Qed.
Lemma filter_rev {A} (f : A -> bool) l : filter f (rev l) = rev (filter f l).
Proof.
  induction l as [|x r IH]; [reflexivity|]. cbn [rev filter]. rewrite filter_app, IH. cbn [filter].
  destruct (f x); [reflexivity|]. cbn [rev]. rewrite app_nil_r. reflexivity.
Qed.

(* ---- order facts ---- *)
Definition elt (x y : entry) : Prop := bytes_ltb (fst x) (fst y) = true.

Lemma sorted_entries_SS (es : list entry) : sorted_strictb (map fst es) = true -> StronglySorted elt es.
Proof.
  induction es as [|e es IH]; intro H; [constructor|]. cbn [map] in H.
  apply sorted_strictb_cons in H. destruct H as [H1 H2].
  constructor; [apply IH; exact H1|]. apply Forall_forall. intros y Hy. apply H2. apply in_map. exact Hy.
Qed.

Lemma leb_refl a : bytes_leb a a = true.
Proof. rewrite bytes_leb_ltb, bytes_ltb_irrefl. reflexivity. Qed.
Lemma ltb_leb a b : bytes_ltb a b = true -> bytes_leb a b = true.
Proof. intro H. rewrite bytes_leb_ltb. rewrite (ltb_asym _ _ H). reflexivity. Qed.
Lemma leb_ltb_trans a b c : bytes_leb a b = true -> bytes_ltb b c = true -> bytes_ltb a c = true.
Proof.
  intros H1 H2. rewrite bytes_leb_ltb in H1. destruct (bytes_total a b) as [H|[->|H]]; [|exact H2|rewrite H in H1; discriminate].
  exact (bytes_ltb_trans _ _ _ H H2).
Qed.
Lemma ltb_leb_trans a b c : bytes_ltb a b = true -> bytes_leb b c = true -> bytes_ltb a c = true.
Proof.
  intros H1 H2. rewrite bytes_leb_ltb in H2. destruct (bytes_total b c) as [H|[<-|H]]; [|exact H1|rewrite H in H2; discriminate].
  exact (bytes_ltb_trans _ _ _ H1 H).
Qed.
Lemma leb_trans a b c : bytes_leb a b = true -> bytes_leb b c = true -> bytes_leb a c = true.
Proof.
  intros H1 H2. destruct (bytes_total a b) as [H|[->|H]]; [|exact H2|rewrite bytes_leb_ltb, H in H1; discriminate].
  apply ltb_leb. exact (ltb_leb_trans _ _ _ H H2).
Qed.
Lemma leb_neq_ltb a b : bytes_leb a b = true -> bytes_eqb b a = false -> bytes_ltb a b = true.
Proof.
  intros H1 H2. destruct (bytes_total a b) as [H|[->|H]]; [exact H| |rewrite bytes_leb_ltb, H in H1; discriminate].
  assert (E : bytes_eqb b b = true) by (apply bytes_eqb_eq; reflexivity). rewrite E in H2. discriminate.
Qed.

Lemma lo_ok_up lo x y : elt x y -> lo_ok lo (fst x) = true -> lo_ok lo (fst y) = true.
Proof.
  unfold elt. intros H. destruct lo as [|a|a]; cbn [lo_ok]; intro H1; [reflexivity| |].
  - apply ltb_leb. exact (leb_ltb_trans _ _ _ H1 H).
  - exact (bytes_ltb_trans _ _ _ H1 H).
Qed.
Lemma hi_ok_down hi x y : elt x y -> hi_ok hi (fst y) = true -> hi_ok hi (fst x) = true.
Proof.
  unfold elt. intros H. destruct hi as [|b|b]; cbn [hi_ok]; intro H1; [reflexivity| |].
  - apply ltb_leb. exact (ltb_leb_trans _ _ _ H H1).
  - exact (bytes_ltb_trans _ _ _ H H1).
Qed.

(* ---- the linear searches of the specification as dropw / takew ---- *)
Lemma ceil_idx_dropw q : forall es i0,
  ceil_idx es q i0 = match dropw (fun e => negb (bytes_leb q (fst e))) es with
                     | [] => None
                     | e :: r => Some (i0 + N.of_nat (length es - S (length r)), e)
                     end.
Proof.
  induction es as [|[k v] es IH]; intro i0; [reflexivity|]. cbn [ceil_idx dropw fst].
  destruct (bytes_leb q k); cbn [negb].
  - f_equal. f_equal. cbn [length]. lia.
  - rewrite IH. pose proof (dropw_length (fun e => negb (bytes_leb q (fst e))) es) as Hl.
    destruct (dropw _ es) as [|e r]; [reflexivity|]. cbn [length] in *. f_equal. f_equal. lia.
Qed.

Lemma floor_idx_takew q : forall es i0 best,
  floor_idx es q i0 best = match rev (takew (fun e => bytes_leb (fst e) q) es) with
                           | [] => best
                           | e :: r => Some (i0 + N.of_nat (length r), e)
                           end.
Proof.
  induction es as [|[k v] es IH]; intros i0 best; [reflexivity|]. cbn [floor_idx takew fst].
  destruct (bytes_leb k q); [|reflexivity].
  rewrite IH. cbn [rev]. destruct (rev (takew _ es)) as [|e r] eqn:E; cbn [app].
  - f_equal. f_equal. cbn [length]. lia.
  - f_equal. f_equal. rewrite app_length. cbn [length]. lia.
Qed.

Lemma skipn_cons_inv {A} (l : list A) n e rest : skipn n l = e :: rest -> nth_error l n = Some e /\ skipn (S n) l = rest.
Proof.
  revert n; induction l as [|x l IH]; intros n H; [destruct n; discriminate|].
  destruct n as [|n]; cbn [skipn] in H; [injection H as -> ->; auto|]. cbn [nth_error]. apply IH. exact H.
Qed.

Lemma firstn_snoc_inv {A} (l : list A) n pre e : firstn (S n) l = pre ++ [e] -> (n < length l)%nat ->
  nth_error l n = Some e /\ firstn n l = pre.
Proof.
  revert n pre; induction l as [|x l IH]; intros n pre H Hn; [cbn [length] in Hn; lia|].
  destruct n as [|n].
  - cbn [firstn] in H. destruct pre as [|p pre]; [injection H as ->; auto|].
    injection H as _ H. destruct pre; discriminate.
  - cbn [length] in Hn. change (firstn (S (S n)) (x :: l)) with (x :: firstn (S n) l) in H.
    destruct pre as [|p pre].
    + cbn [app] in H. injection H as _ H. destruct l; [cbn [length] in Hn; lia|discriminate].
    + cbn [app] in H. injection H as <- H. destruct (IH n pre H ltac:(lia)) as [A1 A2].
      cbn [nth_error]. split; [exact A1|]. cbn [firstn]. rewrite A2. reflexivity.
Qed.

Lemma SS_skipn {A} (R : A -> A -> Prop) l : StronglySorted R l -> forall n, StronglySorted R (skipn n l).
Proof.
  induction 1 as [|x r Hs IH Hf]; intro n; [destruct n; constructor|].
  destruct n as [|n]; [constructor; assumption|]. cbn [skipn]. apply IH.
Qed.

Lemma SS_strengthen {A} (R : A -> A -> Prop) (Q : A -> Prop) l : StronglySorted R l -> Forall Q l ->
  StronglySorted (fun x y => R x y /\ Q x) l.
Proof.
  induction 1 as [|x r Hs IH Hf]; intro HQ; [constructor|]. inversion HQ as [|? ? Hx Hr]; subst.
  constructor; [apply IH; exact Hr|]. rewrite Forall_forall in *. intros y Hy. split; [apply Hf; exact Hy|exact Hx].
Qed.

(* a key between the prefix and a key that has the prefix has the prefix *)
Lemma leb_cons x a y b :
  bytes_leb (x :: a) (y :: b) = if x <? y then true else if y <? x then false else bytes_leb a b.
Proof.
  rewrite !bytes_leb_ltb, ltb_cons. destruct (N.ltb_spec y x); destruct (N.ltb_spec x y); try reflexivity. lia.
Qed.

Lemma sw_between : forall p k k', bytes_leb p k = true -> bytes_ltb k k' = true -> starts_with k' p = true -> starts_with k p = true.
Proof.
  induction p as [|y p IH]; intros k k' H1 H2 H3; [destruct k; reflexivity|].
  destruct k' as [|x' k'']; [discriminate|]. rewrite starts_with_cons in H3. apply andb_prop in H3. destruct H3 as [Hx' Hs'].
  apply N.eqb_eq in Hx'. subst x'.
  destruct k as [|x kk]; [cbv in H1; discriminate|].
  rewrite leb_cons in H1. rewrite ltb_cons in H2. rewrite starts_with_cons.
  destruct (N.ltb_spec y x) as [Hyx|Hyx].
  - destruct (N.ltb_spec x y); [lia|]. discriminate.
  - destruct (N.ltb_spec x y) as [Hxy|Hxy]; [discriminate|].
    assert (x = y) by lia. subst x. rewrite N.eqb_refl. cbn [andb]. exact (IH kk k'' H1 H2 Hs').
Qed.

Lemma last_opt_rev {A} (l : list A) : last_opt l = hd_error (rev l).
Proof.
  destruct (rev l) as [|x r] eqn:E.
  - apply (f_equal (@rev A)) in E. rewrite rev_involutive in E. subst l. reflexivity.
  - apply (f_equal (@rev A)) in E. rewrite rev_involutive in E. subst l. cbn [rev]. apply last_opt_snoc.
Qed.

Section IterRefine.
  Variable step : cstate -> op -> outcome (cstate * option entry).
  Variable es : list entry.
  Variable RelP : apos -> cstate -> Prop.
  Hypothesis Hstep : forall p st o, RelP p st -> admissible p o ->
    exists st' r, step st o = Done (st', r) /\ RelP (fst (aspec es p o)) st' /\ res_ok (snd (aspec es p o)) r.
  Hypothesis Hfresh : RelP Fresh cs_fresh.
  Hypothesis Hsorted : sorted_strictb (map fst es) = true.

  Let Hss : StronglySorted elt es := sorted_entries_SS es Hsorted.

  (* ---- single steps ---- *)
  Lemma step_next n st : RelP (At (N.of_nat n)) st ->
    exists st' r, step st ONext = Done (st', r) /\ r = nth_error es (S n) /\
                  (r <> None -> RelP (At (N.of_nat (S n))) st').
  Proof.
    intro HR. destruct (Hstep _ st ONext HR ltac:(intro; discriminate)) as (st' & r & E & HR' & Hres).
    exists st', r. split; [exact E|]. cbn [aspec] in HR', Hres.
    rewrite nthN_nth_error in HR', Hres. replace (N.to_nat (N.of_nat n + 1)) with (S n) in * by lia.
    destruct (nth_error es (S n)) as [e|]; cbn [at_result fst snd res_ok] in *.
    - split; [exact Hres|]. intros _. replace (N.of_nat (S n)) with (N.of_nat n + 1) by lia. exact HR'.
    - split; [exact Hres|]. intro Hx. congruence.
  Qed.

  Lemma step_prev n st : RelP (At (N.of_nat n)) st ->
    exists st' r, step st OPrev = Done (st', r) /\ r = (match n with O => None | S m => nth_error es m end) /\
                  (r <> None -> RelP (At (N.of_nat (n - 1))) st').
  Proof.
    intro HR. destruct (Hstep _ st OPrev HR ltac:(intro; discriminate)) as (st' & r & E & HR' & Hres).
    exists st', r. split; [exact E|]. cbn [aspec] in HR', Hres.
    destruct n as [|m].
    - cbn [N.of_nat N.eqb at_result fst snd res_ok] in *. split; [exact Hres|]. intro Hx. congruence.
    - destruct (N.eqb_spec (N.of_nat (S m)) 0) as [Hz|Hz]; [lia|].
      rewrite nthN_nth_error in HR', Hres. replace (N.to_nat (N.of_nat (S m) - 1)) with m in * by lia.
      destruct (nth_error es m) as [e|]; cbn [at_result fst snd res_ok] in *.
      + split; [exact Hres|]. intros _. replace (N.of_nat (S m - 1)) with (N.of_nat (S m) - 1) by lia. exact HR'.
      + split; [exact Hres|]. intro Hx. congruence.
  Qed.

  Definition absres (o : op) : option (N * entry) :=
    match o with
    | OFirst => match es with e :: _ => Some (0, e) | [] => None end
    | OLast => match last_opt es with Some e => Some (len es - 1, e) | None => None end
    | OGe q => ceil_idx es q 0
    | OLe q => floor_idx es q 0 None
    | _ => None
    end.
  Definition is_abs (o : op) : bool := match o with OFirst | OLast | OGe _ | OLe _ => true | _ => false end.

  Lemma step_abs p st o : is_abs o = true -> RelP p st ->
    exists st' r, step st o = Done (st', r) /\
      match absres o with Some (i, e) => r = Some e /\ RelP (At i) st' | None => r = None end.
  Proof.
    intros Ho HR.
    assert (Ha : admissible p o) by (intros _; destruct o; try discriminate; reflexivity).
    destruct (Hstep p st o HR Ha) as (st' & r & E & HR' & Hres). exists st', r. split; [exact E|].
    destruct o; try discriminate; cbn [aspec absres] in *;
      match goal with |- context [match ?x with Some _ => _ | None => _ end] => destruct x as [[i e]|] end;
      cbn [at_result fst snd res_ok] in *; auto.
  Qed.

  (* ---- forward scans: from position n (entry e), ONext steps filtered by ok until the first failure ---- *)
  Lemma scan_fwd ok (next : iter -> outcome (iter * option entry)) :
    (forall st, next (mk_iter st false) = do r <- step st ONext; let '(st', e) := r in Done (mk_iter st' false, filter_entry ok e)) ->
    forall rest n st fuel, RelP (At (N.of_nat n)) st -> skipn (S n) es = rest -> (length rest < fuel)%nat ->
    collect next fuel (mk_iter st false) = Done (takew (fun e => ok (fst e)) rest).
  Proof.
    intro Hnext. induction rest as [|e rest IH]; intros n st fuel HR Hsk Hf; (destruct fuel as [|fuel]; [cbn [length] in Hf; lia|]);
      cbn [collect]; rewrite Hnext; destruct (step_next n st HR) as (st' & r & E & Er & HR'); rewrite E; cbn [bind].
    - assert (r = None).
      { rewrite Er. apply nth_error_None. apply (f_equal (@length entry)) in Hsk. rewrite skipn_length in Hsk. cbn [length] in Hsk. lia. }
      subst r. rewrite H. cbn [filter_entry bind]. reflexivity.
    - destruct (skipn_cons_inv _ _ _ _ Hsk) as [Hn Hsk']. rewrite Hn in Er. subst r.
      destruct e as [k v]. cbn [filter_entry takew fst]. destruct (ok k); cbn [bind]; [|reflexivity].
      rewrite (IH (S n) st' fuel (HR' ltac:(discriminate)) Hsk' ltac:(cbn [length] in Hf; lia)). reflexivity.
  Qed.

  Lemma scan_bwd ok (next : iter -> outcome (iter * option entry)) :
    (forall st, next (mk_iter st false) = do r <- step st OPrev; let '(st', e) := r in Done (mk_iter st' false, filter_entry ok e)) ->
    forall rpre n st fuel, RelP (At (N.of_nat n)) st -> rev (firstn n es) = rpre -> (n < length es)%nat -> (length rpre < fuel)%nat ->
    collect next fuel (mk_iter st false) = Done (takew (fun e => ok (fst e)) rpre).
  Proof.
    intro Hnext. induction rpre as [|e rpre IH]; intros n st fuel HR Hpre Hn Hf; (destruct fuel as [|fuel]; [cbn [length] in Hf; lia|]);
      cbn [collect]; rewrite Hnext; destruct (step_prev n st HR) as (st' & r & E & Er & HR'); rewrite E; cbn [bind].
    - assert (n = 0%nat).
      { apply (f_equal (@length entry)) in Hpre. rewrite rev_length, firstn_length in Hpre. cbn [length] in Hpre. lia. }
      subst n. subst r. cbn [filter_entry bind]. reflexivity.
    - destruct n as [|m].
      { cbn [firstn rev] in Hpre. discriminate. }
      assert (Hfs : firstn (S m) es = rev rpre ++ [e]).
      { apply (f_equal (@rev entry)) in Hpre. rewrite rev_involutive in Hpre. cbn [rev] in Hpre. exact Hpre. }
      destruct (firstn_snoc_inv es m (rev rpre) e Hfs ltac:(lia)) as [Hnm Hfm].
      rewrite Hnm in Er. subst r.
      destruct e as [k v]. cbn [filter_entry takew fst]. destruct (ok k); cbn [bind]; [|reflexivity].
      replace (S m - 1)%nat with m in HR' by lia.
      rewrite (IH m st' fuel (HR' ltac:(discriminate)) ltac:(rewrite Hfm; apply rev_involutive) ltac:(lia) ltac:(cbn [length] in Hf; lia)). reflexivity.
  Qed.

  (* ---- the first call: an absolute move, then the state reached ---- *)
  Definition fwd_post (D : list entry) (st' : cstate) (r : option entry) : Prop :=
    match D with
    | [] => r = None
    | e :: rest => r = Some e /\ exists n, RelP (At (N.of_nat n)) st' /\ skipn n es = e :: rest
    end.

  Lemma dropw_hd {A} (f : A -> bool) l x r : dropw f l = x :: r -> f x = false.
  Proof.
    induction l as [|y l IH]; cbn [dropw]; [discriminate|]. destruct (f y) eqn:E; [exact IH|].
    intro H. injection H as <- _. exact E.
  Qed.

  Lemma first_post p st : RelP p st -> exists st' r, step st OFirst = Done (st', r) /\ fwd_post es st' r.
  Proof.
    intro HR. destruct (step_abs p st OFirst eq_refl HR) as (st' & r & E & Hres). exists st', r. split; [exact E|].
    cbn [absres] in Hres. unfold fwd_post. destruct es as [|e rest]; [exact Hres|].
    destruct Hres as [-> HR']. split; [reflexivity|]. exists 0%nat. auto.
  Qed.

  Lemma ge_post a p st : RelP p st ->
    exists st' r, step st (OGe a) = Done (st', r) /\ fwd_post (dropw (fun e => negb (bytes_leb a (fst e))) es) st' r.
  Proof.
    intro HR. destruct (step_abs p st (OGe a) eq_refl HR) as (st' & r & E & Hres). exists st', r. split; [exact E|].
    cbn [absres] in Hres. rewrite ceil_idx_dropw in Hres. unfold fwd_post.
    pose proof (dropw_skipn (fun e => negb (bytes_leb a (fst e))) es) as Hsk.
    pose proof (dropw_length (fun e => negb (bytes_leb a (fst e))) es) as Hl.
    destruct (dropw _ es) as [|e rest]; [exact Hres|].
    destruct Hres as [-> HR']. split; [reflexivity|]. exists (length es - S (length rest))%nat.
    cbn [length] in Hsk. split; [|exact Hsk]. replace (N.of_nat (length es - S (length rest))) with (0 + N.of_nat (length es - S (length rest))) by lia. exact HR'.
  Qed.

  (* the entries satisfying the lower bound, as a suffix *)
  Lemma lo_suffix lo : dropw (fun e => negb (lo_ok lo (fst e))) es = filter (fun e => lo_ok lo (fst e)) es.
  Proof. apply (dropw_filter elt (fun e => lo_ok lo (fst e))); [exact Hss|]. intros x y. apply lo_ok_up. Qed.

  Lemma suffix_SS n l : skipn n es = l -> StronglySorted elt l.
  Proof. intros <-. apply SS_skipn. exact Hss. Qed.

  Lemma filter_gt_all a (l : list entry) v : StronglySorted elt ((a, v) :: l) -> filter (fun e => bytes_ltb a (fst e)) l = l.
  Proof. intro H. inversion H as [|? ? _ Hf]; subst. apply filter_all. rewrite Forall_forall in Hf. exact Hf. Qed.

  Lemma filter_ltb_leb a : filter (fun e : entry => bytes_ltb a (fst e)) es =
                           filter (fun e => bytes_ltb a (fst e)) (filter (fun e => bytes_leb a (fst e)) es).
  Proof.
    rewrite filter_filter. apply filter_ext. intros e. destruct (bytes_ltb a (fst e)) eqn:E; [rewrite (ltb_leb _ _ E); reflexivity|].
    rewrite Bool.andb_false_r. reflexivity.
  Qed.

  (* the start of the forward range iterator *)
  Lemma range_start lo st0 p : RelP p st0 ->
    exists st' r,
      (match lo with
       | Unbounded => step st0 OFirst
       | Included a => step st0 (OGe a)
       | Excluded a =>
         do r1 <- step st0 (OGe a);
         let '(st1, e1) := r1 in
         match e1 with
         | Some (k, v) => if bytes_eqb k a then step st1 ONext else Done (st1, Some (k, v))
         | None => Done (st1, None)
         end
       end) = Done (st', r) /\ fwd_post (filter (fun e => lo_ok lo (fst e)) es) st' r.
  Proof.
    intro HR. destruct lo as [|a|a]; cbn [lo_ok].
    - destruct (first_post p st0 HR) as (st' & r & E & Hp). exists st', r. split; [exact E|].
      rewrite filter_all by reflexivity. exact Hp.
    - destruct (ge_post a p st0 HR) as (st' & r & E & Hp). exists st', r. split; [exact E|].
      pose proof (lo_suffix (Included a)) as Hsuf. cbn [lo_ok] in Hsuf. rewrite <- Hsuf. exact Hp.
    - destruct (ge_post a p st0 HR) as (st1 & r1 & E & Hp). rewrite E. cbn [bind].
      pose proof (lo_suffix (Included a)) as Hsuf. cbn [lo_ok] in Hsuf. rewrite Hsuf in Hp.
      rewrite filter_ltb_leb. unfold fwd_post in Hp.
      pose proof (fun x r => dropw_hd (fun e : entry => negb (bytes_leb a (fst e))) es x r) as Hhd. rewrite Hsuf in Hhd.
      destruct (filter (fun e => bytes_leb a (fst e)) es) as [|[k v] rest] eqn:EF.
      + subst r1. exists st1, None. split; [reflexivity|]. reflexivity.
      + destruct Hp as [-> (n & HRn & Hsk)]. specialize (Hhd _ _ eq_refl). cbn [fst] in Hhd. apply Bool.negb_false_iff in Hhd.
        pose proof (suffix_SS n _ Hsk) as Hs.
        destruct (bytes_eqb k a) eqn:Eq.
        * apply bytes_eqb_eq in Eq. subst k.
          destruct (step_next n st1 HRn) as (st' & r & En & Er & HR').
          exists st', r. split; [exact En|]. cbn [filter fst]. rewrite bytes_ltb_irrefl.
          rewrite (filter_gt_all a rest v Hs).
          destruct (skipn_cons_inv _ _ _ _ Hsk) as [_ Hsk']. unfold fwd_post.
          destruct rest as [|e2 rest2].
          -- rewrite Er. apply nth_error_None. apply (f_equal (@length entry)) in Hsk'. rewrite skipn_length in Hsk'. cbn [length] in Hsk'. lia.
          -- destruct (skipn_cons_inv _ _ _ _ Hsk') as [Hn2 _]. rewrite Hn2 in Er. split; [exact Er|].
             exists (S n). split; [apply HR'; rewrite Er; discriminate|exact Hsk'].
        * exists st1, (Some (k, v)). split; [reflexivity|].
          assert (Hlt : bytes_ltb a k = true) by (apply leb_neq_ltb; assumption).
          assert (EF2 : filter (fun e : entry => bytes_ltb a (fst e)) ((k, v) :: rest) = (k, v) :: rest).
          { apply filter_all. intros x [<-|Hx]; [exact Hlt|]. inversion Hs as [|? ? _ Hf]; subst. rewrite Forall_forall in Hf.
            exact (bytes_ltb_trans _ _ _ Hlt (Hf x Hx)). }
          rewrite EF2. split; [reflexivity|]. exists n. auto.
  Qed.

  Lemma fwd_total ok (next : iter -> outcome (iter * option entry)) D st' r fuel :
    (forall st, next (mk_iter st false) = do r <- step st ONext; let '(st', e) := r in Done (mk_iter st' false, filter_entry ok e)) ->
    fwd_post D st' r -> (length es < fuel)%nat ->
    match filter_entry ok r with
    | Some kv => do rest <- collect next fuel (mk_iter st' false); Done (kv :: rest)
    | None => Done []
    end = Done (takew (fun e => ok (fst e)) D).
  Proof.
    intros Hnext Hp Hf. unfold fwd_post in Hp. destruct D as [|[k v] rest]; [subst r; reflexivity|].
    destruct Hp as [-> (n & HRn & Hsk)]. cbn [filter_entry takew fst]. destruct (ok k); [|reflexivity].
    destruct (skipn_cons_inv _ _ _ _ Hsk) as [_ Hsk'].
    rewrite (scan_fwd ok next Hnext rest n st' fuel HRn Hsk').
    - reflexivity.
    - apply (f_equal (@length entry)) in Hsk'. rewrite skipn_length in Hsk'. lia.
  Qed.

  (* ================= C04, forward ================= *)
  Theorem range_fwd lo hi fuel : (S (length es) < fuel)%nat ->
    collect (range_next step lo hi) fuel iter_new = Done (range_spec es lo hi).
  Proof.
    intro Hf. destruct fuel as [|fuel]; [lia|]. cbn [collect]. unfold range_next at 1. cbn [iter_new it_start it_st].
    destruct (range_start lo cs_fresh Fresh Hfresh) as (st' & r & E & Hp). rewrite E. cbn [bind].
    rewrite (fwd_total (hi_ok hi) (range_next step lo hi) (filter (fun e => lo_ok lo (fst e)) es) st' r fuel); [|reflexivity|exact Hp|lia].
    f_equal. rewrite (takew_filter elt (fun e => hi_ok hi (fst e))); [| apply SS_filter; exact Hss | intros x y; apply hi_ok_down].
    rewrite filter_filter. reflexivity.
  Qed.

  (* ================= C05, forward ================= *)
  Theorem prefix_fwd p fuel : (S (length es) < fuel)%nat ->
    collect (prefix_next step p) fuel iter_new = Done (prefix_spec es p).
  Proof.
    intro Hf. destruct fuel as [|fuel]; [lia|]. cbn [collect]. unfold prefix_next at 1. cbn [iter_new it_start it_st].
    destruct (range_start (Included p) cs_fresh Fresh Hfresh) as (st' & r & E & Hp). rewrite E. cbn [bind]. cbn [lo_ok] in Hp.
    rewrite (fwd_total (fun k => starts_with k p) (prefix_next step p) (filter (fun e => bytes_leb p (fst e)) es) st' r fuel); [|reflexivity|exact Hp|lia].
    f_equal.
    rewrite (takew_filter (fun x y => elt x y /\ bytes_leb p (fst x) = true) (fun e => starts_with (fst e) p)).
    - rewrite filter_filter. unfold prefix_spec. apply filter_ext. intro e.
      destruct (starts_with (fst e) p) eqn:Es; [rewrite (starts_with_ge _ _ Es); reflexivity|apply Bool.andb_false_r].
    - apply SS_strengthen; [apply SS_filter; exact Hss|]. apply Forall_forall. intros x Hx. apply filter_In in Hx. tauto.
    - intros x y [Hxy Hpx] Hy. exact (sw_between p (fst x) (fst y) Hpx Hxy Hy).
  Qed.

  (* ================= reverse ================= *)
  Definition bwd_post (P : list entry) (st' : cstate) (r : option entry) : Prop :=
    match rev P with
    | [] => r = None
    | e :: rpre => r = Some e /\ exists n, RelP (At (N.of_nat n)) st' /\ (n < length es)%nat /\ rev (firstn n es) = rpre /\
                                         nth_error es n = Some e
    end.

  Lemma prefix_post P e rpre : firstn (length P) es = P -> rev P = e :: rpre ->
    (length rpre < length es)%nat /\ rev (firstn (length rpre) es) = rpre /\ nth_error es (length rpre) = Some e.
  Proof.
    intros Hfn Hr. assert (HP : P = rev rpre ++ [e]) by (apply (f_equal (@rev entry)) in Hr; rewrite rev_involutive in Hr; exact Hr).
    assert (Hl : length P = S (length rpre)) by (rewrite HP, app_length, rev_length; cbn [length]; lia).
    assert (Hle : (length P <= length es)%nat).
    { apply (f_equal (@length entry)) in Hfn. rewrite firstn_length in Hfn. lia. }
    split; [lia|]. rewrite Hl, HP in Hfn.
    destruct (firstn_snoc_inv es (length rpre) (rev rpre) e Hfn ltac:(lia)) as [Hn H]. rewrite H. split; [apply rev_involutive|exact Hn].
  Qed.

  Lemma last_post p st : RelP p st -> exists st' r, step st OLast = Done (st', r) /\ bwd_post es st' r.
  Proof.
    intro HR. destruct (step_abs p st OLast eq_refl HR) as (st' & r & E & Hres). exists st', r. split; [exact E|].
    cbn [absres] in Hres. unfold bwd_post. rewrite last_opt_rev in Hres.
    destruct (rev es) as [|e rpre] eqn:Er; cbn [hd_error] in Hres; [exact Hres|].
    destruct Hres as [-> HR']. split; [reflexivity|].
    destruct (prefix_post es e rpre (firstn_all es) Er) as (Hl & Hfn & Hnth).
    exists (length rpre). split; [|split; [assumption|split; assumption]].
    assert (length es = S (length rpre)) by (rewrite <- (rev_length es), Er; reflexivity).
    replace (N.of_nat (length rpre)) with (len es - 1) by (rewrite len_length; lia). exact HR'.
  Qed.

  Lemma le_post b p st : RelP p st ->
    exists st' r, step st (OLe b) = Done (st', r) /\ bwd_post (takew (fun e => bytes_leb (fst e) b) es) st' r.
  Proof.
    intro HR. destruct (step_abs p st (OLe b) eq_refl HR) as (st' & r & E & Hres). exists st', r. split; [exact E|].
    cbn [absres] in Hres. rewrite floor_idx_takew in Hres. unfold bwd_post.
    destruct (rev (takew _ es)) as [|e rpre] eqn:Er; [exact Hres|].
    destruct Hres as [-> HR']. split; [reflexivity|].
    destruct (prefix_post _ e rpre (takew_firstn _ es) Er) as (Hl & Hfn & Hnth).
    exists (length rpre). split; [|split; [assumption|split; assumption]].
    replace (N.of_nat (length rpre)) with (0 + N.of_nat (length rpre)) by lia. exact HR'.
  Qed.

  Lemma hi_prefix hi : takew (fun e => hi_ok hi (fst e)) es = filter (fun e => hi_ok hi (fst e)) es.
  Proof. apply (takew_filter elt (fun e => hi_ok hi (fst e))); [exact Hss|]. intros x y. apply hi_ok_down. Qed.

  Lemma filter_lt_le b : filter (fun e : entry => bytes_ltb (fst e) b) es =
                         filter (fun e => bytes_ltb (fst e) b) (filter (fun e => bytes_leb (fst e) b) es).
  Proof.
    rewrite filter_filter. apply filter_ext. intros e. destruct (bytes_ltb (fst e) b) eqn:E; [rewrite (ltb_leb _ _ E); reflexivity|].
    rewrite Bool.andb_false_r. reflexivity.
  Qed.

  (* after OLe b: nothing at or below b, or the floor entry (k, v) at position n; stepping back over
     an exact match, or staying, positions on the last entry strictly below b *)
  Lemma le_then b p st0 : RelP p st0 ->
    exists st1 r1, step st0 (OLe b) = Done (st1, r1) /\
      match r1 with
      | None => filter (fun e : entry => bytes_leb (fst e) b) es = []
      | Some (k, v) =>
        bytes_leb k b = true /\ exists n, RelP (At (N.of_nat n)) st1 /\ nth_error es n = Some (k, v) /\
          (bytes_eqb k b = true -> exists st' r, step st1 OPrev = Done (st', r) /\ bwd_post (filter (fun e => bytes_ltb (fst e) b) es) st' r) /\
          (bytes_eqb k b = false -> forall st', RelP (At (N.of_nat n)) st' -> bwd_post (filter (fun e => bytes_ltb (fst e) b) es) st' (Some (k, v)))
      end.
  Proof.
    intro HR. destruct (le_post b p st0 HR) as (st1 & r1 & E & Hp). exists st1, r1. split; [exact E|].
    pose proof (hi_prefix (Included b)) as Hpre. cbn [hi_ok] in Hpre. rewrite Hpre in Hp.
    rewrite filter_lt_le. unfold bwd_post in Hp |- *.
    assert (HsP : StronglySorted elt (filter (fun e => bytes_leb (fst e) b) es)) by (apply SS_filter; exact Hss).
    destruct (rev (filter (fun e => bytes_leb (fst e) b) es)) as [|[k v] rpre] eqn:Er.
    - subst r1. apply (f_equal (@rev entry)) in Er. rewrite rev_involutive in Er. exact Er.
    - destruct Hp as [-> (n & HRn & Hn & Hfn & Hnth)].
      apply (f_equal (@rev entry)) in Er. rewrite rev_involutive in Er. cbn [rev] in Er.
      assert (Hkb : bytes_leb k b = true).
      { assert (Hin : In (k, v) (filter (fun e => bytes_leb (fst e) b) es)) by (rewrite Er; apply in_or_app; right; left; reflexivity).
        apply filter_In in Hin. tauto. }
      split; [exact Hkb|]. exists n. split; [exact HRn|]. split; [exact Hnth|].
      rewrite Er in HsP |- *. apply SS_app_inv in HsP. destruct HsP as (_ & _ & Hcross).
      split.
      + intro Eq. apply bytes_eqb_eq in Eq. subst k.
        destruct (step_prev n st1 HRn) as (st' & r & En & Err & HR').
        exists st', r. split; [exact En|].
        rewrite filter_app. cbn [filter fst]. rewrite bytes_ltb_irrefl, app_nil_r.
        rewrite filter_all by (intros x Hx; apply (Hcross x (b, v) Hx); left; reflexivity).
        rewrite rev_involutive. destruct rpre as [|e2 rpre2].
        * assert (n = 0%nat) by (apply (f_equal (@length entry)) in Hfn; rewrite rev_length, firstn_length in Hfn; cbn [length] in Hfn; lia).
          subst n. exact Err.
        * destruct n as [|m]; [cbn [firstn rev] in Hfn; discriminate|].
          assert (Hfs : firstn (S m) es = rev rpre2 ++ [e2]).
          { apply (f_equal (@rev entry)) in Hfn. rewrite rev_involutive in Hfn. cbn [rev] in Hfn. exact Hfn. }
          destruct (firstn_snoc_inv es m (rev rpre2) e2 Hfs ltac:(lia)) as [Hnm Hfm].
          rewrite Hnm in Err. split; [exact Err|]. exists m. split; [|split; [lia|split; [rewrite Hfm; apply rev_involutive|exact Hnm]]].
          replace m with (S m - 1)%nat by lia. apply HR'. rewrite Err. discriminate.
      + intros Eq st' HR'.
        assert (Hlt : bytes_ltb k b = true).
        { destruct (bytes_total k b) as [H|[->|H]]; [exact H| |rewrite bytes_leb_ltb, H in Hkb; discriminate].
          assert (Eb : bytes_eqb b b = true) by (apply bytes_eqb_eq; reflexivity). rewrite Eb in Eq. discriminate. }
        rewrite filter_all.
        * rewrite rev_app_distr. cbn [rev app]. rewrite rev_involutive. split; [reflexivity|]. exists n. auto.
        * intros x Hx. apply in_app_or in Hx. destruct Hx as [Hx|[<-|[]]]; [|exact Hlt].
          exact (bytes_ltb_trans _ _ _ (Hcross x (k, v) Hx ltac:(left; reflexivity)) Hlt).
  Qed.

  (* OLe b followed by the step back over an exact match: the start of an exclusive upper bound *)
  Lemma lt_post b p st0 : RelP p st0 ->
    exists st' r,
      (do r1 <- step st0 (OLe b);
       let '(st1, e1) := r1 in
       match e1 with
       | Some (k, v) => if bytes_eqb k b then step st1 OPrev else Done (st1, Some (k, v))
       | None => Done (st1, None)
       end) = Done (st', r) /\ bwd_post (filter (fun e => bytes_ltb (fst e) b) es) st' r.
  Proof.
    intro HR. destruct (le_then b p st0 HR) as (st1 & r1 & E & Hp). rewrite E. cbn [bind].
    destruct r1 as [[k v]|].
    - destruct Hp as (_ & n & HRn & Hnth & Heq & Hne). destruct (bytes_eqb k b).
      + exact (Heq eq_refl).
      + exists st1, (Some (k, v)). split; [reflexivity|]. exact (Hne eq_refl st1 HRn).
    - exists st1, None. split; [reflexivity|]. unfold bwd_post.
      rewrite filter_lt_le, Hp. reflexivity.
  Qed.

  Lemma range_rstart hi st0 p : RelP p st0 ->
    exists st' r,
      (match hi with
       | Unbounded => step st0 OLast
       | Included b => step st0 (OLe b)
       | Excluded b =>
         do r1 <- step st0 (OLe b);
         let '(st1, e1) := r1 in
         match e1 with
         | Some (k, v) => if bytes_eqb k b then step st1 OPrev else Done (st1, Some (k, v))
         | None => Done (st1, None)
         end
       end) = Done (st', r) /\ bwd_post (filter (fun e => hi_ok hi (fst e)) es) st' r.
  Proof.
    intro HR. destruct hi as [|b|b]; cbn [hi_ok].
    - destruct (last_post p st0 HR) as (st' & r & E & Hp). exists st', r. split; [exact E|].
      rewrite filter_all by reflexivity. exact Hp.
    - destruct (le_post b p st0 HR) as (st' & r & E & Hp). exists st', r. split; [exact E|].
      pose proof (hi_prefix (Included b)) as Hpre. cbn [hi_ok] in Hpre. rewrite <- Hpre. exact Hp.
    - exact (lt_post b p st0 HR).
  Qed.

  Lemma bwd_total ok (next : iter -> outcome (iter * option entry)) P st' r fuel :
    (forall st, next (mk_iter st false) = do r <- step st OPrev; let '(st', e) := r in Done (mk_iter st' false, filter_entry ok e)) ->
    bwd_post P st' r -> (length es < fuel)%nat ->
    match filter_entry ok r with
    | Some kv => do rest <- collect next fuel (mk_iter st' false); Done (kv :: rest)
    | None => Done []
    end = Done (takew (fun e => ok (fst e)) (rev P)).
  Proof.
    intros Hnext Hp Hf. unfold bwd_post in Hp. destruct (rev P) as [|[k v] rpre]; [subst r; reflexivity|].
    destruct Hp as [-> (n & HRn & Hn & Hfn & _)]. cbn [filter_entry takew fst]. destruct (ok k); [|reflexivity].
    rewrite (scan_bwd ok next Hnext rpre n st' fuel HRn Hfn Hn).
    - reflexivity.
    - apply (f_equal (@length entry)) in Hfn. rewrite rev_length, firstn_length in Hfn. lia.
  Qed.

  Lemma Hss_rev P : StronglySorted elt P -> StronglySorted (fun x y => elt y x) (rev P).
  Proof. apply SS_rev. Qed.

  (* ================= C04, reverse ================= *)
  Theorem range_bwd lo hi fuel : (S (length es) < fuel)%nat ->
    collect (rev_range_next step lo hi) fuel iter_new = Done (rev (range_spec es lo hi)).
  Proof.
    intro Hf. destruct fuel as [|fuel]; [lia|]. cbn [collect]. unfold rev_range_next at 1. cbn [iter_new it_start it_st].
    destruct (range_rstart hi cs_fresh Fresh Hfresh) as (st' & r & E & Hp). rewrite E. cbn [bind].
    rewrite (bwd_total (lo_ok lo) (rev_range_next step lo hi) (filter (fun e => hi_ok hi (fst e)) es) st' r fuel); [|reflexivity|exact Hp|lia].
    f_equal. rewrite (takew_filter (fun x y => elt y x) (fun e => lo_ok lo (fst e))).
    - rewrite filter_rev, filter_filter. f_equal. unfold range_spec. apply filter_ext. intro e. unfold in_range. apply Bool.andb_comm.
    - apply Hss_rev. apply SS_filter. exact Hss.
    - intros x y Hyx. apply (lo_ok_up lo y x Hyx).
  Qed.

  (* ================= C05, reverse ================= *)
  (* what the reverse prefix iterator needs beyond the refinement: a lower-or-equal seek that finds
     nothing leaves `current` on an entry above the probe (ReaderRefine.R_le_none) *)
  Hypothesis Hle_none : forall p st q st', RelP p st -> step st (OLe q) = Done (st', None) ->
    exists e, step st' OCurrent = Done (st', Some e) /\ In e es /\ bytes_ltb q (fst e) = true.
  Hypothesis Hwf : Forall (fun e => wf_bytes (fst e)) es.

  Lemma current_at n st e : RelP (At (N.of_nat n)) st -> nth_error es n = Some e ->
    exists st', step st OCurrent = Done (st', Some e) /\ RelP (At (N.of_nat n)) st'.
  Proof.
    intros HR Hn. destruct (Hstep _ st OCurrent HR ltac:(intro; discriminate)) as (st' & r & E & HR' & Hres).
    cbn [aspec fst snd res_ok] in HR', Hres. rewrite nthN_nth_error, Nat2N.id, Hn in Hres. subst r. exists st'. auto.
  Qed.

  Definition prefix_upto (p : bytes) : list entry :=
    match advance_key p with Some np => filter (fun e => bytes_ltb (fst e) np) es | None => es end.

  Lemma wf_in e : In e es -> wf_bytes (fst e).
  Proof. intro H. rewrite Forall_forall in Hwf. exact (Hwf e H). Qed.

  Lemma prefix_rstart p st0 q0 : wf_bytes p -> RelP q0 st0 ->
    exists st' r, move_on_last_prefix step p st0 = Done (st', r) /\
      ((filter_entry (fun k => starts_with k p) r = None /\ filter (fun e => starts_with (fst e) p) es = []) \/
       bwd_post (prefix_upto p) st' r).
  Proof.
    intros Hp HR. unfold move_on_last_prefix, prefix_upto.
    destruct (advance_key_spec p Hp) as [_ Hadv].
    destruct (advance_key p) as [np|] eqn:Ea.
    - specialize (Hadv np eq_refl).
      destruct (le_then np q0 st0 HR) as (st1 & r1 & E & Hpost). rewrite E. cbn [bind].
      destruct r1 as [[k v]|].
      + destruct Hpost as (_ & n & HRn & Hnth & Heq & Hne). destruct (bytes_eqb k np).
        * destruct (Heq eq_refl) as (st' & r & E2 & Hb). exists st', r. split; [exact E2|]. right. exact Hb.
        * destruct (current_at n st1 (k, v) HRn Hnth) as (st' & E2 & HR'). exists st', (Some (k, v)). split; [exact E2|].
          right. exact (Hne eq_refl st' HR').
      + destruct (Hle_none q0 st0 np st1 HR E) as (e & E2 & Hin & Hgt). exists st1, (Some e). split; [exact E2|]. left.
        destruct e as [k v]. cbn [fst] in Hgt. cbn [filter_entry]. split.
        * destruct (starts_with k p) eqn:Es; [|reflexivity].
          destruct (Hadv k (wf_in (k, v) Hin)) as [H1 _]. specialize (H1 Es). rewrite (ltb_asym _ _ H1) in Hgt. discriminate.
        * apply filter_none. intros x Hx. destruct (starts_with (fst x) p) eqn:Es; [|reflexivity].
          destruct (Hadv (fst x) (wf_in x Hx)) as [H1 _]. specialize (H1 Es).
          assert (Hin2 : In x (filter (fun e : entry => bytes_leb (fst e) np) es)) by (apply filter_In; split; [exact Hx|apply ltb_leb; exact H1]).
          rewrite Hpost in Hin2. destruct Hin2.
    - destruct (last_post q0 st0 HR) as (st' & r & E & Hb). exists st', r. split; [exact E|]. right. exact Hb.
  Qed.

  Theorem prefix_bwd p fuel : wf_bytes p -> (S (length es) < fuel)%nat ->
    collect (rev_prefix_next step p) fuel iter_new = Done (rev (prefix_spec es p)).
  Proof.
    intros Hp Hf. destruct fuel as [|fuel]; [lia|]. cbn [collect]. unfold rev_prefix_next at 1. cbn [iter_new it_start it_st].
    destruct (prefix_rstart p cs_fresh Fresh Hp Hfresh) as (st' & r & E & Hpost). rewrite E. cbn [bind].
    destruct Hpost as [[Hnone Hempty]|Hb].
    - rewrite Hnone. unfold prefix_spec. rewrite Hempty. reflexivity.
    - rewrite (bwd_total (fun k => starts_with k p) (rev_prefix_next step p) (prefix_upto p) st' r fuel); [|reflexivity|exact Hb|lia].
      f_equal. unfold prefix_upto, prefix_spec.
      destruct (advance_key_spec p Hp) as [Hnone Hadv].
      destruct (advance_key p) as [np|] eqn:Ea.
      + specialize (Hadv np eq_refl).
        rewrite (takew_filter (fun x y => elt y x /\ (bytes_ltb (fst x) np = true /\ wf_bytes (fst x))) (fun e => starts_with (fst e) p)).
        * rewrite filter_rev, filter_filter. f_equal. apply filter_ext_in. intros e He.
          destruct (starts_with (fst e) p) eqn:Es; [|apply Bool.andb_false_r].
          destruct (Hadv (fst e) (wf_in e He)) as [H1 _]. rewrite (H1 Es). reflexivity.
        * apply SS_strengthen; [apply Hss_rev; apply SS_filter; exact Hss|]. apply Forall_forall. intros x Hx.
          apply in_rev in Hx. apply filter_In in Hx. destruct Hx as [Hx1 Hx2]. split; [exact Hx2|exact (wf_in x Hx1)].
        * intros x y (Hyx & Hxn & Hxw) Hy. destruct (Hadv (fst x) Hxw) as [_ H2]. apply H2; [exact Hxn|].
          apply ltb_leb. exact (leb_ltb_trans _ _ _ (starts_with_ge _ _ Hy) Hyx).
      + assert (A255 : all255 p) by (apply Hnone; reflexivity).
        rewrite (takew_filter (fun x y => elt y x /\ wf_bytes (fst x)) (fun e => starts_with (fst e) p)).
        * apply filter_rev.
        * apply SS_strengthen; [apply Hss_rev; exact Hss|]. apply Forall_forall. intros x Hx. apply in_rev in Hx. exact (wf_in x Hx).
        * intros x y (Hyx & Hxw) Hy. apply (all255_le_prefix p A255 (fst x) Hxw).
          apply ltb_leb. exact (leb_ltb_trans _ _ _ (starts_with_ge _ _ Hy) Hyx).
  Qed.
End IterRefine.

(* ================= on every well-formed store ================= *)
Section OnStore.
  Variables (ld : N -> N -> outcome block) (root levels : N) (bstore : N -> option (block * list entry * list nat)).
  Hypothesis W : wf_store ld root levels bstore.
  Notation es := (content root levels bstore).
  Notation step := (cstep ld root levels).

  Lemma store_step p st o : Rel root bstore levels p st -> admissible p o ->
    exists st' r, step st o = Done (st', r) /\ Rel root bstore levels (fst (aspec es p o)) st' /\ res_ok (snd (aspec es p o)) r.
  Proof.
    intros HR Ha. destruct (R_step ld root levels bstore W p st o HR Ha) as (st' & r & A & B & C & _). exists st', r. auto.
  Qed.

  Lemma store_sorted_content : sorted_strictb (map fst es) = true.
  Proof. destruct W as [_ _ _ _ Hs _]. exact (Hs (S (N.to_nat levels)) ltac:(lia)). Qed.

  Theorem R_range_fwd lo hi fuel : (S (length es) < fuel)%nat ->
    collect (range_next step lo hi) fuel iter_new = Done (range_spec es lo hi).
  Proof. exact (range_fwd step es (Rel root bstore levels) store_step (fresh_rel root bstore levels) store_sorted_content lo hi fuel). Qed.

  Theorem R_range_bwd lo hi fuel : (S (length es) < fuel)%nat ->
    collect (rev_range_next step lo hi) fuel iter_new = Done (rev (range_spec es lo hi)).
  Proof. exact (range_bwd step es (Rel root bstore levels) store_step (fresh_rel root bstore levels) store_sorted_content lo hi fuel). Qed.

  Theorem R_prefix_fwd p fuel : (S (length es) < fuel)%nat ->
    collect (prefix_next step p) fuel iter_new = Done (prefix_spec es p).
  Proof. exact (prefix_fwd step es (Rel root bstore levels) store_step (fresh_rel root bstore levels) store_sorted_content p fuel). Qed.

  Theorem R_prefix_bwd p fuel : Forall (fun e => wf_bytes (fst e)) es -> wf_bytes p -> (S (length es) < fuel)%nat ->
    collect (rev_prefix_next step p) fuel iter_new = Done (rev (prefix_spec es p)).
  Proof.
    intros Hwf. apply (prefix_bwd step es (Rel root bstore levels) store_step (fresh_rel root bstore levels) store_sorted_content).
    - intros p0 st q st' HR E. exact (R_le_none ld root levels bstore W p0 st q HR st' E).
    - exact Hwf.
  Qed.
End OnStore.
