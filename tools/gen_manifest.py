#!/usr/bin/env python3
"""Writes MANIFEST.json from tools/registry.py (so it always validates and stays in sync)."""
import json, os, sys
ROOT = os.path.dirname(os.path.dirname(os.path.abspath(__file__)))
sys.path.insert(0, os.path.join(ROOT, "tools"))
from registry import PROPS, MANIFEST_TEXT, NOT_APPLICABLE
props = [json.loads(l) for l in open(os.path.join(ROOT, "properties.jsonl"))]
checks = []
for p in props:
    pid = p["id"]
    if pid not in PROPS:
        continue
    t = MANIFEST_TEXT[pid]
    checks.append({
        "property_id": pid,
        "quick_cmd": "./check %s --tier quick" % pid,
        "thorough_cmd": "./check %s --tier thorough" % pid,
        "evidence_file": "/verif/evidence/%s.json" % pid,
        "replay_cmd_template": "./check replay {path}",
        "engine": "rocq-model+correspondence",
        "level_claimed": {"category": "proof", "text": t["text"], "design_ref": t["design_ref"]},
        "level_note": t["note"],
        "technique": t["technique"],
    })
na = [{"property_id": p["id"], "reason": NOT_APPLICABLE.get(p["id"], "check not yet built in this framework (work in progress); no claim is made")}
      for p in props if p["id"] not in PROPS]
m = {
    "version": 1,
    "setup_cmd": "./setup.sh",
    "hooks": {
        "guard": "grenad_verif",
        "enable": "RUSTFLAGS=\"--cfg grenad_verif\" (set in /verif/harness/.cargo/config.toml; the harness depends on /repo by path)",
        "baseline_off_cmd": "cd /repo && cargo test --workspace --no-fail-fast --offline",
        "source_commits": ["27a55ae", "d98f4d6"],
        "add_only": True,
    },
    "engines": [{
        "name": "rocq-model+correspondence", "path": "/verif/coq, /verif/ocaml, /verif/harness, /verif/check",
        "serves_properties": [c["property_id"] for c in checks],
        "kind_free_text": "Machine-checked proofs (Coq 8.16.1) about a hand-written executable Gallina model of grenad; model tied to /repo on every run by re-extracted constants and by differential execution of the OCaml-extracted model against the real crate (Rust harness, cfg grenad_verif).",
    }],
    "checks": checks,
    "not_applicable": na,
    "notes": "Every check: (1) regenerates coq/gen/Consts.v from /repo/src, (2) full .vo build of the property's proof cone + audits (Print Assumptions allow-list, forbidden-token grep, pinned statement hash), (3) rebuilds the harness against /repo's working tree, (4) runs implementation and extracted model on the same generated cases and evaluates the property predicate on every implementation observation. A broken proof/tie without a failing input is reported with the suffix no-failing-input-found. Fixed defects are listed in known_findings.json.",
}
json.dump(m, open(os.path.join(ROOT, "MANIFEST.json"), "w"), indent=1)
print("MANIFEST.json: %d checks, %d not_applicable" % (len(checks), len(na)))
