#!/usr/bin/env python3
"""Confirms each sub-agent change in its own scratch worktree (/tmp/mut/Cxx):
patch applies, existing test suite passes with it, demo fails with it and passes without it.
Writes /tmp/mut/confirm.json.  Scratch only; never touches /repo."""
import json, os, subprocess, sys, concurrent.futures as cf
BASE = os.environ.get("MUT_BASE", "/tmp/mut")

def sh(cmd, cwd, timeout=1800):
    p = subprocess.run(cmd, shell=True, cwd=cwd, stdout=subprocess.PIPE, stderr=subprocess.STDOUT, text=True, timeout=timeout)
    return p.returncode, p.stdout

def confirm(pid):
    wt = BASE + "/" + pid
    out = {}
    for var in ("a", "b"):
        d = BASE + "/out/%s/%s" % (pid, var)
        if not os.path.exists(d + "/patch.diff"):
            out[var] = {"ok": False, "why": "missing"}; continue
        meta = json.load(open(d + "/meta.json"))
        feats = meta.get("features", "").strip()
        fflag = ("--features " + feats.replace(",", " ").replace("  ", " ")) if feats else ""
        fflag = fflag.replace("--features ", "--features '") + ("'" if feats else "")
        r = {}
        sh("git checkout -- . && git clean -fdq tests", wt)
        os.makedirs(wt + "/tests", exist_ok=True)
        sh("cp %s/demo.rs tests/demo_%s.rs" % (d, var), wt)
        rc, o = sh("cargo test --offline %s --test demo_%s 2>&1 | tail -5" % (fflag, var), wt)
        r["demo_without"] = ("test result: ok" in o)
        rc, o = sh("git apply %s/patch.diff" % d, wt)
        r["applies"] = (rc == 0)
        rc, o = sh("cargo test --offline %s --test demo_%s 2>&1 | tail -8" % (fflag, var), wt)
        r["demo_with_fails"] = ("test result: FAILED" in o or "panicked" in o or "error: test failed" in o)
        sh("rm -f tests/demo_%s.rs" % var, wt)
        rc, o = sh("cargo test --offline --lib 2>&1 | grep 'test result' | head -2", wt)
        r["suite_passes"] = ("ok. 34 passed" in o)
        rc, o = sh("cargo test --offline --doc 2>&1 | grep 'test result' | head -2", wt)
        r["doc_passes"] = ("ok. 3 passed" in o)
        sh("git checkout -- . && git clean -fdq tests", wt)
        r["ok"] = all([r["demo_without"], r["applies"], r["demo_with_fails"], r["suite_passes"], r["doc_passes"]])
        r["what"] = meta.get("what", ""); r["needs"] = meta.get("needs", ""); r["features"] = feats
        out[var] = r
    sh("cargo clean", wt)
    return pid, out

pids = sys.argv[1:] or ["C%02d" % i for i in range(1, 19)]
res = {}
with cf.ThreadPoolExecutor(max_workers=6) as ex:
    for pid, out in ex.map(confirm, pids):
        res[pid] = out
        print(pid, {k: v.get("ok") for k, v in out.items()}, flush=True)
old = json.load(open(BASE + "/confirm.json")) if os.path.exists(BASE + "/confirm.json") else {}
old.update(res)
json.dump(old, open(BASE + "/confirm.json", "w"), indent=1)
