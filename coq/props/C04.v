(* C04 — Range iterators yield exactly the in-range entries, in order, for all bounds.
   Statements only.  C04_range / C04_rev_range: on every well-formed store (any index depth), and so
   (the C04_written theorems) on every file the writer model finishes from a non-empty ascending input, the
   transcribed iterators (Iter.range_next / rev_range_next over Reader.cstep) collect, up to their
   first None, exactly the filter of the content by both bounds, in order / in reverse.  fuel is the
   bound on the number of next() calls of the executable collect loop (any value above length + 1). *)
From Grenad.model Require Import Base Block Reader Spec Iter.
From Grenad.proofs Require Import SpecProofs.

Theorem C04_range_spec_is_filter : forall es lo hi e,
  In e (range_spec es lo hi) <-> In e es /\ lo_ok lo (fst e) = true /\ hi_ok hi (fst e) = true.
Proof. exact range_spec_in. Qed.
Print Assumptions C04_range_spec_is_filter.

(* the first call of the iterators positions by exactly one absolute move (never depends on the
   state of a fresh cursor), the following calls by exactly one relative move *)
Theorem C04_next_shape : forall step lo hi st,
  range_next step lo hi (mk_iter st false) =
  bind (step st ONext) (fun r => Done (mk_iter (fst r) false, filter_entry (hi_ok hi) (snd r))).
Proof. intros. unfold range_next. cbn [it_start it_st]. destruct (step st ONext) as [[st' e]| |]; reflexivity. Qed.
Print Assumptions C04_next_shape.

Example C04_spec_examples :
  let es := [([1], []); ([2], []); ([3], [])] in
  range_spec es (Excluded [1]) (Included [3]) = [([2], []); ([3], [])] /\
  range_spec es (Included [3]) (Excluded [1]) = [] /\ range_spec es Unbounded Unbounded = es.
Proof. vm_compute. repeat split; reflexivity. Qed.

(* ================= the iterators over the multi-level cursor ================= *)
From Grenad.model Require Import Trailer Writer.
From Grenad.proofs Require Import ReaderRefine WriterStore IterRefine WrittenIter.

Theorem C04_range : forall ld root levels bstore, wf_store ld root levels bstore ->
  forall lo hi fuel, (S (length (content root levels bstore)) < fuel)%nat ->
  collect (range_next (cstep ld root levels) lo hi) fuel iter_new = Done (range_spec (content root levels bstore) lo hi).
Proof. exact R_range_fwd. Qed.
Print Assumptions C04_range.

Theorem C04_rev_range : forall ld root levels bstore, wf_store ld root levels bstore ->
  forall lo hi fuel, (S (length (content root levels bstore)) < fuel)%nat ->
  collect (rev_range_next (cstep ld root levels) lo hi) fuel iter_new = Done (rev (range_spec (content root levels bstore) lo hi)).
Proof. exact R_range_bwd. Qed.
Print Assumptions C04_rev_range.

Theorem C04_written_range : forall compress decompress c,
  (forall b z, compress (wc_codec c) (wc_level c) b = Done z -> decompress (wc_codec c) z = Done b) ->
  forall es i s lg m, wc_levels c < 256 -> 1 <= wc_interval c ->
  w_run_gen vsink vs_wr vs_fl vs_count compress c vs_empty es = (i, Done (s, lg, m)) ->
  es <> [] -> sorted_strictb (map fst es) = true ->
  len (vs_bytes s) < 2^64 -> mem_ok lg ->
  forall lo hi fuel, (S (length es) < fuel)%nat ->
  collect (range_next (cstep (load_block decompress (vs_bytes s) (m_codec m)) (m_root m) (m_levels m)) lo hi) fuel iter_new = Done (range_spec es lo hi).
Proof. exact written_range_fwd. Qed.
Print Assumptions C04_written_range.

Theorem C04_written_rev_range : forall compress decompress c,
  (forall b z, compress (wc_codec c) (wc_level c) b = Done z -> decompress (wc_codec c) z = Done b) ->
  forall es i s lg m, wc_levels c < 256 -> 1 <= wc_interval c ->
  w_run_gen vsink vs_wr vs_fl vs_count compress c vs_empty es = (i, Done (s, lg, m)) ->
  es <> [] -> sorted_strictb (map fst es) = true ->
  len (vs_bytes s) < 2^64 -> mem_ok lg ->
  forall lo hi fuel, (S (length es) < fuel)%nat ->
  collect (rev_range_next (cstep (load_block decompress (vs_bytes s) (m_codec m)) (m_root m) (m_levels m)) lo hi) fuel iter_new = Done (rev (range_spec es lo hi)).
Proof. exact written_range_bwd. Qed.
Print Assumptions C04_written_rev_range.

(* ================= call by call ================= *)
(* What C04_range / C04_rev_range say about the collected list holds for every single call: the first n
   calls of next (n up to the number of in-range entries) return Some of the first n in-range entries, one
   after the other, and the call after the last one returns None.  calls is the n-successive-calls function
   of the fault theorems of C12. *)
From Grenad.proofs Require Import IterFault IterCalls.

Theorem C04_range_call_by_call : forall ld root levels bstore, wf_store ld root levels bstore ->
  forall lo hi,
  (forall n, (n <= length (range_spec (content root levels bstore) lo hi))%nat ->
     exists it', calls (range_next (cstep ld root levels) lo hi) n iter_new
                 = Done (it', map Some (firstn n (range_spec (content root levels bstore) lo hi)))) /\
  (exists it', calls (range_next (cstep ld root levels) lo hi) (S (length (range_spec (content root levels bstore) lo hi))) iter_new
               = Done (it', map Some (range_spec (content root levels bstore) lo hi) ++ [None])).
Proof. exact range_calls. Qed.
Print Assumptions C04_range_call_by_call.

Theorem C04_rev_range_call_by_call : forall ld root levels bstore, wf_store ld root levels bstore ->
  forall lo hi,
  (forall n, (n <= length (rev (range_spec (content root levels bstore) lo hi)))%nat ->
     exists it', calls (rev_range_next (cstep ld root levels) lo hi) n iter_new
                 = Done (it', map Some (firstn n (rev (range_spec (content root levels bstore) lo hi))))) /\
  (exists it', calls (rev_range_next (cstep ld root levels) lo hi) (S (length (rev (range_spec (content root levels bstore) lo hi)))) iter_new
               = Done (it', map Some (rev (range_spec (content root levels bstore) lo hi)) ++ [None])).
Proof. exact rev_range_calls. Qed.
Print Assumptions C04_rev_range_call_by_call.

(* the step from the collected list to the single calls is generic in the iterator and its starting state:
   whatever collect returns determines every call, so the C04_written / C05_written theorems (and the empty
   file, C01_empty_file) read call by call in the same way *)
Theorem C04_collect_determines_calls : forall (next : iter -> outcome (iter * option entry)) fuel it l,
  collect next fuel it = Done l ->
  (forall n, (n <= length l)%nat -> exists it', calls next n it = Done (it', map Some (firstn n l))) /\
  (exists it', calls next (S (length l)) it = Done (it', map Some l ++ [None])).
Proof. exact collect_determines_calls. Qed.
Print Assumptions C04_collect_determines_calls.
