(* C09 — Files conform to the V2 format and interoperate with grenad 0.4.7 both ways.
   Statements only; the layout literals are those of the property text. *)
From Grenad.gen Require Import Consts.
From Grenad.model Require Import Base Varint Block Trailer Spec Format.
From Grenad.proofs Require Import BlockProofs FormatProofs TrailerProofs.

Theorem C09_constants : MAGIC_V2 = 1730401476 (* 0x6723D4C4 *) /\ METADATA_V2_SIZE + 4 = 22.
Proof. split; reflexivity. Qed.
Print Assumptions C09_constants.

(* block layout: payload = varint-framed entries in insertion order, then the table of entry
   offsets as u64 big-endian (first 0, one per index interval), then their count as u32 big-endian *)
Theorem C09_block_layout : forall w es buf,
  bw_ok w es -> bw_finish w = Done buf ->
  buf = payload_of es ++ flat_map (be_bytes 8) (rev (bw_offsets w)) ++ be_bytes 4 (len (rev (bw_offsets w))) /\
  offsets_ok (bw_interval w) (mk_block (payload_of es) (rev (bw_offsets w))) (with_starts es 0) = true.
Proof. exact finished_block_layout. Qed.
Print Assumptions C09_block_layout.

(* an independent decoder (parse_block + sequential entry_at) recovers exactly the entries *)
Theorem C09_block_decodes : forall w es buf,
  bw_ok w es -> bw_len w < 2^64 -> bw_finish w = Done buf ->
  exists b, parse_block buf = Done b /\ block_entries b = Done (with_starts es 0).
Proof. exact finished_block_decodes. Qed.
Print Assumptions C09_block_decodes.

(* the 22-byte little-endian trailer: root offset u64, codec id u8, entry count u64, index levels
   u8, magic 0x6723D4C4 *)
Theorem C09_trailer_layout : forall root codec count levels,
  trailer_bytes (mk_meta FormatV2 root codec count levels) =
  le_bytes 8 root ++ [codec mod 256] ++ le_bytes 8 count ++ [levels mod 256] ++ le_bytes 4 1730401476 /\
  length (trailer_bytes (mk_meta FormatV2 root codec count levels)) = 22%nat.
Proof. intros. split; reflexivity. Qed.
Print Assumptions C09_trailer_layout.
