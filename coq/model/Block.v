(* Transcription of src/block_writer.rs (BlockWriter) and src/block.rs (Block, BlockCursor). *)
From Grenad.model Require Import Base Varint.

(* ------------------------------------------------------------------ BlockWriter *)
Record bw : Type := mk_bw {
  bw_chunks : list bytes;      (* the payload buffer, as appended chunks, most recent first *)
  bw_len : N;                  (* buffer.len() *)
  bw_last : option bytes;      (* last_key *)
  bw_interval : N;             (* index_key_interval (>= 1) *)
  bw_offsets : list N;         (* index_offsets, most recent first; the oldest is 0 *)
  bw_noffsets : N;             (* index_offsets.len() *)
  bw_counter : N }.            (* index_key_counter *)

Definition bw_buf (w : bw) : bytes := concat (rev (bw_chunks w)).

Definition bw_new (interval : N) : bw := mk_bw [] 0 None interval [0] 1 0.
Definition bw_reset (w : bw) : bw := bw_new (bw_interval w).

(* current_size_estimate: buffer + 8 bytes per footer offset + the u32 count *)
Definition bw_size (w : bw) : N := bw_len w + bw_noffsets w * 8 + 4.

(* the framing of one entry: varint(klen) varint(vlen) key value *)
Definition frame (k v : bytes) : bytes :=
  varint_encode32 (len k) ++ varint_encode32 (len v) ++ k ++ v.

Definition bw_insert (w : bw) (k v : bytes) : outcome bw :=
  if (U32_MAX <? len k) || (U32_MAX <? len v) then Panic      (* assert!(len <= u32::MAX) *)
  else
    let '(offs, noffs, ctr) :=
      if bw_counter w =? bw_interval w
      then (bw_len w :: bw_offsets w, bw_noffsets w + 1, 0)
      else (bw_offsets w, bw_noffsets w, bw_counter w) in
    let ok := match bw_last w with
              | Some l => bytes_ltb l k                        (* assert!(key > last_key) *)
              | None => true
              end in
    if ok then
      let f := frame k v in
      Done (mk_bw (f :: bw_chunks w) (bw_len w + len f) (Some k) (bw_interval w) offs noffs (ctr + 1))
    else Panic.

(* finish(): payload, then the offsets as u64 BE, then their count as u32 BE *)
Definition bw_finish (w : bw) : outcome bytes :=
  if U32_MAX <? bw_noffsets w then Panic                       (* try_into::<u32>().unwrap() *)
  else Done (bw_buf w ++ flat_map (be_bytes 8) (rev (bw_offsets w)) ++ be_bytes 4 (bw_noffsets w)).

(* ------------------------------------------------------------------ Block (parsed) *)
Record block : Type := mk_block {
  blk_payload : bytes;         (* buffer[..payload_size] *)
  blk_offsets : list N }.      (* index_offsets *)

Fixpoint chunks8 (fuel : nat) (l : bytes) : list bytes :=
  match fuel with
  | O => []
  | S f => match l with
           | a :: b :: c :: d :: e :: g :: h :: i :: r => [a; b; c; d; e; g; h; i] :: chunks8 f r
           | _ => []
           end
  end.

(* Block::read_from after decompression: footer parse; every slice index that can fail panics *)
Definition parse_block (buf : bytes) : outcome block :=
  let n := len buf in
  if n <? 4 then Panic
  else
    let cnt := be_decode (skipnN (n - 4) buf) in
    let ibs := cnt * 8 in
    if n - 4 <? ibs then Panic
    else
      let psize := n - 4 - ibs in
      let footer := firstnN ibs (skipnN psize buf) in
      Done (mk_block (firstnN psize buf) (map be_decode (chunks8 (length footer) footer))).

(* Block::entry_at: (key, value, offset of the next entry) *)
Definition entry_at (b : block) (off : N) : outcome (option (bytes * bytes * N)) :=
  let p := blk_payload b in
  if len p <=? off then Done None
  else
    let d1 := skipnN off p in
    do r1 <- varint_decode32 d1;
    let '(klen, l1) := r1 in
    let d2 := skipnN l1 d1 in
    do r2 <- varint_decode32 d2;
    let '(vlen, l2) := r2 in
    let d3 := skipnN l2 d2 in
    if len d3 <? klen then Panic
    else
      let d4 := skipnN klen d3 in
      if len d4 <? vlen then Panic
      else Done (Some (firstnN klen d3, firstnN vlen d4, off + l1 + l2 + klen + vlen)).

(* ------------------------------------------------------------------ BlockCursor *)
Record bcur : Type := mk_bcur { bc_blk : block; bc_off : option N }.

Definition bc_new (b : block) : bcur := mk_bcur b None.

Definition bc_current (c : bcur) : outcome (option entry) :=
  match bc_off c with
  | None => Done None
  | Some off =>
    do e <- entry_at (bc_blk c) off;
    Done (match e with Some (k, v, _) => Some (k, v) | None => None end)
  end.

Definition bc_first (c : bcur) : outcome (bcur * option entry) :=
  let c' := mk_bcur (bc_blk c) (hd_error (blk_offsets (bc_blk c))) in
  do e <- bc_current c'; Done (c', e).

(* `while let Some((k, _, next)) = entry_at(off) { if stop k { break } cur = Some(off); off = next }`
   fuel: the payload itself (each entry is at least two bytes long, so it suffices for
   well-formed blocks; running out means the real loop does not terminate) *)
Fixpoint scan_while (fuel : bytes) (b : block) (stop : bytes -> bool) (off : N) (cur : option N)
  : outcome (option N) :=
  do e <- entry_at b off;
  match e with
  | None => Done cur
  | Some (k, _, next) =>
    if stop k then Done cur
    else match fuel with
         | [] => Fail EFuel
         | _ :: fuel' => scan_while fuel' b stop next (Some off)
         end
  end.

Definition bc_last (c : bcur) : outcome (bcur * option entry) :=
  let b := bc_blk c in
  do cur <- match last_opt (blk_offsets b) with
            | Some off => scan_while (blk_payload b) b (fun _ => false) off (bc_off c)
            | None => Done None
            end;
  let c' := mk_bcur b cur in
  do e <- bc_current c'; Done (c', e).

Definition bc_next (c : bcur) : outcome (bcur * option entry) :=
  match bc_off c with
  | Some off =>
    do e <- entry_at (bc_blk c) off;
    match e with
    | Some (_, _, next) =>
      let c' := mk_bcur (bc_blk c) (Some next) in
      do r <- bc_current c'; Done (c', r)
    | None => Done (c, None)
    end
  | None => bc_first c
  end.

(* slice::binary_search on the (strictly ascending) offsets, by its contract: Ok i when
   offsets[i] = x, otherwise Err (number of elements < x).  inl = Ok, inr = Err. *)
Fixpoint search_offsets (l : list N) (x : N) (i : N) : N + N :=
  match l with
  | [] => inr i
  | y :: r => if y =? x then inl i else if x <? y then inr i else search_offsets r x (N.succ i)
  end.

Definition bc_prev (c : bcur) : outcome (bcur * option entry) :=
  match bc_off c with
  | Some cur =>
    let b := bc_blk c in
    let offs := blk_offsets b in
    let i := match search_offsets offs cur 0 with inl i => i | inr i => i end in
    if i =? 0 then Done (c, None)                                (* checked_sub(1)? *)
    else
      do e <- entry_at b cur;
      match e with
      | None => Done (c, None)                                   (* .map(..)? *)
      | Some (ck, _, _) =>
        match nthN (i - 1) offs with
        | None => Panic                                          (* offsets[i] out of range *)
        | Some off0 =>
          do cur' <- scan_while (blk_payload b) b (fun k => bytes_eqb ck k) off0 (Some cur);
          let c' := mk_bcur b cur' in
          do r <- bc_current c'; Done (c', r)
        end
      end
  | None => bc_last c
  end.

(* Option<&[u8]> order: None < Some _ *)
Definition okey_compare (a : option bytes) (q : bytes) : comparison :=
  match a with None => Lt | Some k => lex_compare k q end.

(* slice::binary_search_by_key(&Some(key), |off| entry_at(off).map(key)) by its contract *)
Fixpoint search_keys (b : block) (l : list N) (q : bytes) (i : N) : outcome (N + N) :=
  match l with
  | [] => Done (inr i)
  | off :: r =>
    do e <- entry_at b off;
    match okey_compare (match e with Some (k, _, _) => Some k | None => None end) q with
    | Eq => Done (inl i)
    | Gt => Done (inr i)
    | Lt => search_keys b r q (N.succ i)
    end
  end.

Definition bc_le (c : bcur) (q : bytes) : outcome (bcur * option entry) :=
  let b := bc_blk c in
  let offs := blk_offsets b in
  do res <- search_keys b offs q 0;
  do cur <- match res with
            | inl i => match nthN i offs with Some off => Done (Some off) | None => Panic end
            | inr i =>
              if i =? 0 then Done None
              else match nthN (i - 1) offs with
                   | Some off0 => scan_while (blk_payload b) b (fun k => bytes_ltb q k) off0 None
                   | None => Done None
                   end
            end;
  let c' := mk_bcur b cur in
  do r <- bc_current c'; Done (c', r).

Definition bc_ge (c : bcur) (q : bytes) : outcome (bcur * option entry) :=
  do r <- bc_le c q;
  let '(c', e) := r in
  match e with
  | Some (k, v) => if bytes_eqb k q then Done (c', Some (k, v)) else bc_next c'
  | None => bc_first c'
  end.

(* the closures handed to the index cursor *)
Inductive mv : Type := MFirst | MLast | MNext | MPrev | MGe (q : bytes).
Definition bc_move (m : mv) (c : bcur) : outcome (bcur * option entry) :=
  match m with
  | MFirst => bc_first c | MLast => bc_last c | MNext => bc_next c | MPrev => bc_prev c
  | MGe q => bc_ge c q
  end.
