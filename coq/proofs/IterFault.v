(* C12, iterators over a failing source: the range and prefix iterators transcribed over the cursor whose
   loader fails its j-th block load.  Every call of next made before the load counter reaches j returns
   what it returns without the fault; the call during which load j happens returns exactly the injected
   error; so the failing call of an iterator is determined, nothing before it is affected and it never
   turns into a result or a panic.  Built from the counter-indexed agreement of cstep (IoReader). *)
From Coq Require Import Lia ZArith ZifyN ZifyBool ZifyNat.
From Grenad.model Require Import Base Block Reader Spec Iter IoModel.
From Grenad.proofs Require Import BaseProofs IoReader.

Section IterFault.
  Variable ld : N -> N -> outcome block.
  Variable j : N.
  Variables root levels : N.
  Notation fld := (faulty_load ld j).
  Notation step := (cstep ld root levels).
  Notation fstep := (cstep fld root levels).
  Notation ccnt := (fun r : cstate * option entry => cs_loads (fst r)).
  Notation icnt := (fun r : iter * option entry => cs_loads (it_st (fst r))).

  Lemma step_ag st o : agrees j ccnt (cs_loads st) (step st o) (fstep st o).
  Proof. apply cstep_agrees. Qed.

  Lemma done_ag (x : cstate * option entry) : agrees j ccnt (cs_loads (fst x)) (Done x) (Done x).
  Proof. apply (agrees_same ld j). intros a H. injection H as <-. reflexivity. Qed.

  (* the tail shared by the four iterators: wrap the cursor result *)
  Lemma wrap_ag n g b (ok : bytes -> bool) : agrees j ccnt n g b ->
    agrees j icnt n (do r <- g; let '(st', e) := r in Done (mk_iter st' false, filter_entry ok e))
                    (do r <- b; let '(st', e) := r in Done (mk_iter st' false, filter_entry ok e)).
  Proof.
    intro H. apply (agrees_bind ld j ccnt icnt n g b); [exact H|]. intros [st' e] _. cbn [fst].
    apply (agrees_same ld j). intros a Ha. injection Ha as <-. reflexivity.
  Qed.

  Theorem range_next_agrees lo hi it :
    agrees j icnt (cs_loads (it_st it)) (range_next step lo hi it) (range_next fstep lo hi it).
  Proof.
    unfold range_next. apply wrap_ag. destruct (it_start it); [|apply step_ag]. destruct lo as [|a|a]; try apply step_ag.
    apply (agrees_bind ld j ccnt ccnt _ _ _ _ _ (step_ag (it_st it) (OGe a))). intros [st1 e1] _. cbn [fst].
    destruct e1 as [[k v]|]; [|apply (done_ag (st1, None))]. destruct (bytes_eqb k a); [apply step_ag|apply (done_ag (st1, Some (k, v)))].
  Qed.

  Theorem rev_range_next_agrees lo hi it :
    agrees j icnt (cs_loads (it_st it)) (rev_range_next step lo hi it) (rev_range_next fstep lo hi it).
  Proof.
    unfold rev_range_next. apply wrap_ag. destruct (it_start it); [|apply step_ag]. destruct hi as [|a|a]; try apply step_ag.
    apply (agrees_bind ld j ccnt ccnt _ _ _ _ _ (step_ag (it_st it) (OLe a))). intros [st1 e1] _. cbn [fst].
    destruct e1 as [[k v]|]; [|apply (done_ag (st1, None))]. destruct (bytes_eqb k a); [apply step_ag|apply (done_ag (st1, Some (k, v)))].
  Qed.

  Theorem prefix_next_agrees p it :
    agrees j icnt (cs_loads (it_st it)) (prefix_next step p it) (prefix_next fstep p it).
  Proof. unfold prefix_next. apply wrap_ag. destruct (it_start it); apply step_ag. Qed.

  Lemma last_prefix_agrees p st :
    agrees j ccnt (cs_loads st) (move_on_last_prefix step p st) (move_on_last_prefix fstep p st).
  Proof.
    unfold move_on_last_prefix. destruct (advance_key p) as [np|]; [|apply step_ag].
    apply (agrees_bind ld j ccnt ccnt _ _ _ _ _ (step_ag st (OLe np))). intros [st1 e1] _. cbn [fst].
    destruct e1 as [[k v]|]; [|apply step_ag]. destruct (bytes_eqb k np); apply step_ag.
  Qed.

  Theorem rev_prefix_next_agrees p it :
    agrees j icnt (cs_loads (it_st it)) (rev_prefix_next step p it) (rev_prefix_next fstep p it).
  Proof. unfold rev_prefix_next. apply wrap_ag. destruct (it_start it); [apply last_prefix_agrees|apply step_ag]. Qed.

  (* ---- n successive calls of next ---- *)
  Fixpoint calls (next : iter -> outcome (iter * option entry)) (n : nat) (it : iter) : outcome (iter * list (option entry)) :=
    match n with
    | O => Done (it, [])
    | S n' => do r <- next it; do y <- calls next n' (fst r); Done (fst y, snd r :: snd y)
    end.
  Notation lcnt := (fun r : iter * list (option entry) => cs_loads (it_st (fst r))).

  Theorem calls_agree next fnext :
    (forall it, agrees j icnt (cs_loads (it_st it)) (next it) (fnext it)) ->
    forall n it, agrees j lcnt (cs_loads (it_st it)) (calls next n it) (calls fnext n it).
  Proof.
    intros H. induction n as [|n IH]; intro it; cbn [calls].
    - apply (agrees_same ld j). intros a Ha. injection Ha as <-. reflexivity.
    - apply (agrees_bind ld j icnt lcnt _ _ _ _ _ (H it)). intros [it1 r1] _. cbn [fst snd].
      apply (agrees_bind ld j lcnt lcnt _ _ _ _ _ (IH it1)). intros [it2 rs] _. cbn [fst snd].
      apply (agrees_same ld j). intros a Ha. injection Ha as <-. reflexivity.
  Qed.

  (* packaged: n calls without the fault return (it', rs); then with the fault: the same when load j is not
     among the loads they perform, the injected error when it is *)
  Theorem iterator_fault next fnext n it it' rs :
    (forall it, agrees j icnt (cs_loads (it_st it)) (next it) (fnext it)) ->
    calls next n it = Done (it', rs) ->
    cs_loads (it_st it) <= cs_loads (it_st it') /\
    (j < cs_loads (it_st it) \/ cs_loads (it_st it') <= j -> calls fnext n it = Done (it', rs)) /\
    (cs_loads (it_st it) <= j < cs_loads (it_st it') -> calls fnext n it = Fail (EIo IO_INJECTED)).
  Proof. intros H E. pose proof (calls_agree next fnext H n it) as A. unfold agrees in A. rewrite E in A. exact A. Qed.
End IterFault.

Notation FaultSplit ld j root levels mk n it it' rs :=
  (calls (mk (cstep ld root levels)) n it = Done (it', rs) ->
   cs_loads (it_st it) <= cs_loads (it_st it') /\
   (j < cs_loads (it_st it) \/ cs_loads (it_st it') <= j -> calls (mk (cstep (faulty_load ld j) root levels)) n it = Done (it', rs)) /\
   (cs_loads (it_st it) <= j < cs_loads (it_st it') -> calls (mk (cstep (faulty_load ld j) root levels)) n it = Fail (EIo IO_INJECTED))).

Theorem range_iterator_fault ld j root levels lo hi n it it' rs :
  FaultSplit ld j root levels (fun s => range_next s lo hi) n it it' rs.
Proof. apply (iterator_fault ld j). intro x. apply range_next_agrees. Qed.
Theorem rev_range_iterator_fault ld j root levels lo hi n it it' rs :
  FaultSplit ld j root levels (fun s => rev_range_next s lo hi) n it it' rs.
Proof. apply (iterator_fault ld j). intro x. apply rev_range_next_agrees. Qed.
Theorem prefix_iterator_fault ld j root levels p n it it' rs :
  FaultSplit ld j root levels (fun s => prefix_next s p) n it it' rs.
Proof. apply (iterator_fault ld j). intro x. apply prefix_next_agrees. Qed.
Theorem rev_prefix_iterator_fault ld j root levels p n it it' rs :
  FaultSplit ld j root levels (fun s => rev_prefix_next s p) n it it' rs.
Proof. apply (iterator_fault ld j). intro x. apply rev_prefix_next_agrees. Qed.
