(* The multi-level cursor (model/Reader.v: IndexBlockCursor and ReaderCursor) on a well-formed
   store: relative moves step to the neighbour in the level sequence, absolute moves walk the
   selected path from any coherent cache, the per-level block cache stays coherent. *)
From Coq Require Import Lia ZArith ZifyN ZifyBool ZifyNat Sorting.Sorted.
From Grenad.model Require Import Base Varint Block Trailer Reader Spec Format.
From Grenad.proofs Require Import BaseProofs BlockProofs FormatProofs BlockCursorProofs.
Ltac Zify.zify_post_hook ::= Z.div_mod_to_equations.

Section Refine.
  Variable ld : N -> N -> outcome block.
  Variable root : N.
  (* the well-formed store: every block offset maps to the parsed block, its entries and restarts *)
  Variable bstore : N -> option (block * list entry * list nat).
  Hypothesis Hld : forall off b es ridx, bstore off = Some (b, es, ridx) ->
    (forall ord, ld ord off = Done b) /\ wfblock b es ridx /\ es <> [].

  Definition coff (it : entry) : N := be_decode (snd it).
  Definition kids (it : entry) : list entry :=
    match bstore (coff it) with Some (_, es, _) => es | None => [] end.
  Definition root_items : list entry := match bstore root with Some (_, es, _) => es | None => [] end.
  Fixpoint lseq (k : nat) : list entry :=
    match k with O => root_items | S k' => flat_map kids (lseq k') end.
  (* an index item: 8-byte value naming a stored block *)
  Definition item_ok (it : entry) : Prop := len (snd it) = 8 /\ bstore (coff it) <> None.

  Definition gstart (l : list entry) (gp : nat) : nat := length (flat_map kids (firstn gp l)).

  Lemma kids_pos it : item_ok it -> (0 < length (kids it))%nat.
  Proof.
    intros [_ H]. unfold kids. destruct (bstore (coff it)) as [[[b es] ridx]|] eqn:E; [|congruence].
    destruct (Hld _ _ _ _ E) as (_ & _ & Hne). destruct es; [congruence|cbn [length]; lia].
  Qed.

  Lemma gstart_S l gp pit : nth_error l gp = Some pit -> gstart l (S gp) = (gstart l gp + length (kids pit))%nat.
  Proof.
    unfold gstart. revert gp. induction l as [|a l IH]; intros gp H; [destruct gp; discriminate|].
    destruct gp as [|gp]; cbn [nth_error firstn flat_map] in *.
    - injection H as ->. destruct l; cbn [firstn flat_map]; rewrite ?app_nil_r; cbn [length]; lia.
    - rewrite !app_length. rewrite (IH gp H). lia.
  Qed.

  Lemma nth_flat l gp pit j : nth_error l gp = Some pit -> (j < length (kids pit))%nat ->
    nth_error (flat_map kids l) (gstart l gp + j) = nth_error (kids pit) j.
  Proof.
    unfold gstart. revert gp. induction l as [|a l IH]; intros gp H Hj; [destruct gp; discriminate|].
    destruct gp as [|gp]; cbn [nth_error firstn flat_map length plus] in *.
    - injection H as ->. rewrite nth_error_app1 by lia. reflexivity.
    - rewrite app_length. rewrite <- Nat.add_assoc. rewrite nth_error_app2 by lia.
      replace (length (kids a) + (length (flat_map kids (firstn gp l)) + j) - length (kids a))%nat
        with (length (flat_map kids (firstn gp l)) + j)%nat by lia.
      apply IH; assumption.
  Qed.

  Lemma gstart_all l : gstart l (length l) = length (flat_map kids l).
  Proof. unfold gstart. rewrite firstn_all. reflexivity. Qed.

  Lemma gstart_bound l gp pit : nth_error l gp = Some pit -> (gstart l gp + length (kids pit) <= length (flat_map kids l))%nat.
  Proof.
    intro H. rewrite <- (gstart_S l gp pit H). unfold gstart.
    rewrite <- (firstn_skipn (S gp) l) at 2. rewrite flat_map_app, app_length. lia.
  Qed.

  (* a cursor sitting on entry j of the block stored at [off] *)
  Definition cursor_at (c : bcur) (off : N) (j : nat) : Prop :=
    exists b es ridx, bstore off = Some (b, es, ridx) /\ bc_blk c = b /\ bc_off c = Some (start es j) /\ (j < length es)%nat.

  (* positioned st d g: st (deepest level first) has d+1 levels, its deepest cursor sits on element g
     of lseq d, every cursor above on the ancestor item *)
  Inductive positioned : list (N * bcur) -> nat -> nat -> Prop :=
  | pos_root o c g : cursor_at c root g -> positioned [(o, c)] 0 g
  | pos_step o c up d gp pit j : positioned up d gp -> nth_error (lseq d) gp = Some pit -> item_ok pit ->
      cursor_at c (coff pit) j -> positioned ((o, c) :: up) (S d) (gstart (lseq d) gp + j).

  Lemma cursor_at_items c off j b es ridx : cursor_at c off j -> bstore off = Some (b, es, ridx) ->
    bc_blk c = b /\ bc_off c = Some (start es j) /\ (j < length es)%nat.
  Proof. intros (b' & es' & r' & E & H1 & H2 & H3) E2. rewrite E in E2. injection E2 as <- <- <-. auto. Qed.

  Lemma positioned_lt st d g : positioned st d g -> (g < length (lseq d))%nat.
  Proof.
    induction 1 as [o c g (b & es & ridx & E & _ & _ & Hj) | o c up d gp pit j Hp IH Hn Hok (b & es & ridx & E & _ & _ & Hj)].
    - cbn [lseq]. unfold root_items. rewrite E. exact Hj.
    - cbn [lseq]. pose proof (gstart_bound _ _ _ Hn) as Hb. unfold kids in Hb at 1. rewrite E in Hb. lia.
  Qed.

  (* the in-block relative move, index level *)
  Lemma move_next_at c off j b es ridx : bstore off = Some (b, es, ridx) -> cursor_at c off j ->
    bc_move MNext c = Done (mk_bcur b (Some (start es (S j))), nth_error es (S j)).
  Proof.
    intros E H. destruct (cursor_at_items c off j b es ridx H E) as (H1 & H2 & H3).
    destruct (Hld _ _ _ _ E) as (_ & W & _). cbn [bc_move].
    destruct c as [cb co]. cbn [bc_blk bc_off] in *. subst cb co. exact (bc_next_spec b es ridx W j H3).
  Qed.

  Lemma cursor_at_next off j b es ridx : bstore off = Some (b, es, ridx) -> (S j < length es)%nat ->
    cursor_at (mk_bcur b (Some (start es (S j)))) off (S j).
  Proof. intros E H. exists b, es, ridx. auto. Qed.

  Lemma fresh_next off b es ridx : bstore off = Some (b, es, ridx) ->
    bc_move MNext (bc_new b) = Done (mk_bcur b (Some (start es 0)), nth_error es 0).
  Proof. intro E. destruct (Hld _ _ _ _ E) as (_ & W & _). cbn [bc_move]. unfold bc_new. exact (bc_next_fresh b es ridx W). Qed.

  (* ---- recursive_index_block with move_on_next ---- *)
  Lemma off_of_item it : item_ok it -> off_of_val (snd it) = Done (coff it).
  Proof. intros [H _]. unfold off_of_val, coff. rewrite H. reflexivity. Qed.

  Theorem rec_next_spec st d g : positioned st d g ->
    (forall k, (k < d)%nat -> Forall item_ok (lseq k)) -> forall n,
    exists st' r n', rec_rev ld MNext n st = Done (st', r, n') /\ n <= n' <= n + N.of_nat (S d) /\
      if Nat.ltb (S g) (length (lseq d))
      then positioned st' d (S g) /\ r = nth_error (lseq d) (S g)
      else r = None /\ length st' = length st.
  Proof.
    induction 1 as [o c g Hc | o c up d' gp pit j Hp IH Hn Hok Hc]; intros Hitems n.
    - (* root level *)
      destruct Hc as (b & es & ridx & E & H1 & H2 & H3).
      assert (Hcat : cursor_at c root g) by (exists b, es, ridx; auto).
      cbn [rec_rev]. rewrite (move_next_at c root g b es ridx E Hcat). cbn [bind].
      cbn [lseq]. unfold root_items. rewrite E.
      destruct (nth_error es (S g)) as [it|] eqn:En.
      + assert (Hs : (S g < length es)%nat) by (apply nth_error_Some; congruence).
        destruct (Hld _ _ _ _ E) as (_ & W & _).
        rewrite (bc_current_start b es ridx W (S g) ltac:(lia)). cbn [bind].
        eexists _, _, n. split; [reflexivity|]. split; [lia|].
        destruct (Nat.ltb_spec (S g) (length es)); [|lia].
        split; [apply pos_root; apply (cursor_at_next root g b es ridx E Hs)|first [reflexivity | exact En | (symmetry; exact En)]].
      + assert (Hs : (length es <= S g)%nat) by (apply nth_error_None; exact En).
        cbn [rec_rev bind]. eexists _, _, n. split; [reflexivity|]. split; [lia|].
        destruct (Nat.ltb_spec (S g) (length es)); [lia|]. split; reflexivity.
    - destruct Hc as (b & es & ridx & E & H1 & H2 & H3).
      assert (Hcat : cursor_at c (coff pit) j) by (exists b, es, ridx; auto).
      assert (Hk : kids pit = es) by (unfold kids; rewrite E; reflexivity).
      set (g := (gstart (lseq d') gp + j)%nat) in *.
      pose proof (gstart_bound _ _ _ Hn) as Hm. rewrite Hk in Hm.
      cbn [rec_rev]. rewrite (move_next_at c (coff pit) j b es ridx E Hcat). cbn [bind].
      destruct (Hld _ _ _ _ E) as (_ & W & _).
      destruct (nth_error es (S j)) as [it|] eqn:En.
      + (* stays inside the block *)
        assert (Hs : (S j < length es)%nat) by (apply nth_error_Some; congruence).
        rewrite (bc_current_start b es ridx W (S j) ltac:(lia)). cbn [bind].
        eexists _, _, n. split; [reflexivity|]. split; [lia|].
        cbn [lseq]. destruct (Nat.ltb_spec (S g) (length (flat_map kids (lseq d')))); [|subst g; lia].
        split.
        * replace (S g) with (gstart (lseq d') gp + S j)%nat by (subst g; lia).
          eapply pos_step; [exact Hp | exact Hn | exact Hok | apply (cursor_at_next (coff pit) j b es ridx E Hs)].
        * subst g. replace (S (gstart (lseq d') gp + j)) with (gstart (lseq d') gp + S j)%nat by lia.
          rewrite (nth_flat _ _ _ _ Hn) by (rewrite Hk; lia). rewrite Hk. first [reflexivity | exact En | (symmetry; exact En)].
      + (* block exhausted: climb *)
        assert (Hlast : S j = length es) by (apply nth_error_None in En; lia).
        destruct (IH ltac:(intros k Hk'; apply Hitems; lia) n) as (up2 & r2 & n2 & Er & Hn2 & IHres). rewrite Er. cbn [bind].
        cbn [lseq].
        assert (Hg1 : S g = gstart (lseq d') (S gp)) by (rewrite (gstart_S _ _ _ Hn), Hk; subst g; lia).
        destruct (Nat.ltb_spec (S gp) (length (lseq d'))) as [Hgp|Hgp].
        * destruct IHres as [IHp IHr].
          destruct (nth_error (lseq d') (S gp)) as [pit2|] eqn:E2; [|apply nth_error_None in E2; lia].
          subst r2.
          (* the parent's next item names the next block of this level *)
          assert (Hok2 : item_ok pit2).
          { pose proof (Hitems d' ltac:(lia)) as F. rewrite Forall_forall in F. apply F. eapply nth_error_In. exact E2. }
          destruct pit2 as [k2 ob2]. pose proof (off_of_item (k2, ob2) Hok2) as Ho2. cbn [snd] in Ho2. rewrite Ho2. cbn [bind].
          destruct (bstore (coff (k2, ob2))) as [[[b2 es2] ridx2]|] eqn:Eb2; [|destruct Hok2 as [_ Hx]; congruence].
          destruct (Hld _ _ _ _ Eb2) as (Hl2 & W2 & Hne2).
          rewrite (Hl2 n2). cbn [bind]. rewrite (fresh_next _ b2 es2 ridx2 Eb2). cbn [bind].
          eexists _, _, (n2 + 1). split; [reflexivity|]. split; [lia|].
          assert (Hk2 : kids (k2, ob2) = es2) by (unfold kids; rewrite Eb2; reflexivity).
          pose proof (gstart_bound _ _ _ E2) as Hm2. rewrite Hk2 in Hm2.
          assert (Hl0 : (0 < length es2)%nat) by (destruct es2; [congruence|cbn [length]; lia]).
          destruct (Nat.ltb_spec (S g) (length (flat_map kids (lseq d')))); [|lia].
          split.
          -- rewrite Hg1. replace (gstart (lseq d') (S gp)) with (gstart (lseq d') (S gp) + 0)%nat by lia.
             eapply pos_step; [exact IHp | exact E2 | exact Hok2 |]. exists b2, es2, ridx2. auto.
          -- rewrite Hg1. replace (gstart (lseq d') (S gp)) with (gstart (lseq d') (S gp) + 0)%nat by lia.
             rewrite (nth_flat _ _ _ _ E2) by (rewrite Hk2; lia). rewrite Hk2. reflexivity.
        * destruct IHres as [IHr IHl]. subst r2.
          eexists _, _, n2. split; [reflexivity|]. split; [lia|].
          assert (length (lseq d') = S gp) by (pose proof (positioned_lt _ _ _ Hp); lia).
          assert (S g = length (flat_map kids (lseq d'))) by (rewrite Hg1, <- gstart_all; congruence).
          destruct (Nat.ltb_spec (S g) (length (flat_map kids (lseq d')))); [lia|].
          split; [reflexivity|]. cbn [length]. rewrite IHl. reflexivity.
  Qed.

  (* ---- recursive_index_block with move_on_prev ---- *)
  Lemma move_prev_at c off j b es ridx : bstore off = Some (b, es, ridx) -> cursor_at c off j ->
    bc_move MPrev c = if Nat.eqb j 0 then Done (c, None)
                      else Done (mk_bcur b (Some (start es (j - 1))), nth_error es (j - 1)).
  Proof.
    intros E H. destruct (cursor_at_items c off j b es ridx H E) as (H1 & H2 & H3).
    destruct (Hld _ _ _ _ E) as (_ & W & _). cbn [bc_move].
    destruct c as [cb co]. cbn [bc_blk bc_off] in *. subst cb co.
    destruct (Nat.eqb_spec j 0) as [->|Hj].
    - exact (bc_prev_first b es ridx W).
    - exact (bc_prev_spec b es ridx W j ltac:(lia) H3).
  Qed.

  Lemma fresh_prev off b es ridx : bstore off = Some (b, es, ridx) ->
    bc_move MPrev (bc_new b) = Done (mk_bcur b (Some (start es (length es - 1))), nth_error es (length es - 1)).
  Proof.
    intro E. destruct (Hld _ _ _ _ E) as (_ & W & Hne). cbn [bc_move]. unfold bc_new, bc_prev. cbn [bc_off].
    apply (bc_last_spec b es ridx W). destruct es; [congruence|cbn [length]; lia].
  Qed.

  Lemma gstart_0 l : gstart l 0 = 0%nat. Proof. reflexivity. Qed.

  Theorem rec_prev_spec st d g : positioned st d g ->
    (forall k, (k < d)%nat -> Forall item_ok (lseq k)) -> forall n,
    exists st' r n', rec_rev ld MPrev n st = Done (st', r, n') /\ n <= n' <= n + N.of_nat (S d) /\
      if Nat.ltb 0 g
      then positioned st' d (g - 1) /\ r = nth_error (lseq d) (g - 1)
      else r = None /\ length st' = length st.
  Proof.
    induction 1 as [o c g Hc | o c up d' gp pit j Hp IH Hn Hok Hc]; intros Hitems n.
    - destruct Hc as (b & es & ridx & E & H1 & H2 & H3).
      assert (Hcat : cursor_at c root g) by (exists b, es, ridx; auto).
      cbn [rec_rev]. rewrite (move_prev_at c root g b es ridx E Hcat).
      destruct (Hld _ _ _ _ E) as (_ & W & _).
      destruct (Nat.eqb_spec g 0) as [->|Hg]; cbn [bind].
      + cbn [rec_rev bind]. eexists _, _, n. split; [reflexivity|]. split; [lia|]. cbn [Nat.ltb Nat.leb]. split; reflexivity.
      + destruct (nth_error es (g - 1)) as [it|] eqn:En; [|apply nth_error_None in En; lia].
        rewrite (bc_current_start b es ridx W (g - 1) ltac:(lia)). cbn [bind].
        eexists _, _, n. split; [reflexivity|]. split; [lia|].
        destruct (Nat.ltb_spec 0 g); [|lia].
        split; [apply pos_root; exists b, es, ridx; repeat split; auto; lia|].
        cbn [lseq]. unfold root_items. rewrite E. first [reflexivity | exact En | (symmetry; exact En)].
    - destruct Hc as (b & es & ridx & E & H1 & H2 & H3).
      assert (Hcat : cursor_at c (coff pit) j) by (exists b, es, ridx; auto).
      assert (Hk : kids pit = es) by (unfold kids; rewrite E; reflexivity).
      set (g := (gstart (lseq d') gp + j)%nat) in *.
      cbn [rec_rev]. rewrite (move_prev_at c (coff pit) j b es ridx E Hcat).
      destruct (Hld _ _ _ _ E) as (_ & W & _).
      destruct (Nat.eqb_spec j 0) as [Hj0|Hj0]; cbn [bind].
      + (* first entry of its block: climb *)
        destruct (IH ltac:(intros k Hk'; apply Hitems; lia) n) as (up2 & r2 & n2 & Er & Hn2 & IHres). rewrite Er. cbn [bind].
        assert (Hg0 : g = gstart (lseq d') gp) by (subst g; lia).
        destruct (Nat.ltb_spec 0 gp) as [Hgp|Hgp].
        * destruct IHres as [IHp IHr].
          destruct (nth_error (lseq d') (gp - 1)) as [pit2|] eqn:E2.
          2:{ apply nth_error_None in E2. pose proof (positioned_lt _ _ _ Hp). lia. }
          subst r2.
          assert (Hok2 : item_ok pit2).
          { pose proof (Hitems d' ltac:(lia)) as F. rewrite Forall_forall in F. apply F. eapply nth_error_In. exact E2. }
          destruct pit2 as [k2 ob2]. pose proof (off_of_item (k2, ob2) Hok2) as Ho2. cbn [snd] in Ho2. rewrite Ho2. cbn [bind].
          destruct (bstore (coff (k2, ob2))) as [[[b2 es2] ridx2]|] eqn:Eb2; [|destruct Hok2 as [_ Hx]; congruence].
          destruct (Hld _ _ _ _ Eb2) as (Hl2 & W2 & Hne2).
          rewrite (Hl2 n2). cbn [bind]. rewrite (fresh_prev _ b2 es2 ridx2 Eb2). cbn [bind].
          eexists _, _, (n2 + 1). split; [reflexivity|]. split; [lia|].
          assert (Hk2 : kids (k2, ob2) = es2) by (unfold kids; rewrite Eb2; reflexivity).
          assert (Hl0 : (0 < length es2)%nat) by (destruct es2; [congruence|cbn [length]; lia]).
          pose proof (gstart_S (lseq d') (gp - 1) (k2, ob2) E2) as HS. replace (S (gp - 1)) with gp in HS by lia. rewrite Hk2 in HS.
          assert (Hgpos : (0 < g)%nat) by lia.
          destruct (Nat.ltb_spec 0 g); [|lia].
          assert (Hgm : (g - 1 = gstart (lseq d') (gp - 1) + (length es2 - 1))%nat) by lia.
          split.
          -- rewrite Hgm. eapply pos_step; [exact IHp | exact E2 | exact Hok2 |]. exists b2, es2, ridx2. repeat split; auto. lia.
          -- cbn [lseq]. rewrite Hgm. rewrite (nth_flat _ _ _ _ E2) by (rewrite Hk2; lia). rewrite Hk2. reflexivity.
        * destruct IHres as [IHr IHl]. subst r2.
          eexists _, _, n2. split; [reflexivity|]. split; [lia|].
          assert (gp = 0%nat) by lia. subst gp. rewrite gstart_0 in Hg0.
          destruct (Nat.ltb_spec 0 g); [lia|]. split; [reflexivity|]. cbn [length]. rewrite IHl. reflexivity.
      + (* stays inside the block *)
        destruct (nth_error es (j - 1)) as [it|] eqn:En; [|apply nth_error_None in En; lia].
        rewrite (bc_current_start b es ridx W (j - 1) ltac:(lia)). cbn [bind].
        eexists _, _, n. split; [reflexivity|]. split; [lia|].
        destruct (Nat.ltb_spec 0 g); [|subst g; lia].
        assert (Hgm : (g - 1 = gstart (lseq d') gp + (j - 1))%nat) by (subst g; lia).
        split.
        * rewrite Hgm. eapply pos_step; [exact Hp | exact Hn | exact Hok |]. exists b, es, ridx. repeat split; auto. lia.
        * cbn [lseq]. rewrite Hgm. rewrite (nth_flat _ _ _ _ Hn) by (rewrite Hk; lia). rewrite Hk.
          first [reflexivity | exact En | (symmetry; exact En)].
  Qed.

  (* ================= absolute moves: iter_index_blocks / initial_index_blocks ================= *)
  Inductive absmove : mv -> Prop := abs_first : absmove MFirst | abs_last : absmove MLast | abs_ge q : absmove (MGe q).
  Definition sel (m : mv) (es : list entry) : nat :=
    match m with
    | MFirst => 0%nat
    | MLast => (length es - 1)%nat
    | MGe q => ceil_pos es q
    | _ => 0%nat
    end.

  Lemma abs_move m c off b es ridx : absmove m -> bstore off = Some (b, es, ridx) -> bc_blk c = b ->
    bc_move m c = Done (mk_bcur b (Some (start es (sel m es))), nth_error es (sel m es)).
  Proof.
    intros Hm E Hb. destruct (Hld _ _ _ _ E) as (_ & W & Hne). destruct c as [cb co]. cbn [bc_blk] in Hb. subst cb.
    destruct Hm; cbn [bc_move sel].
    - exact (bc_first_spec b es ridx W co).
    - apply (bc_last_spec b es ridx W co). destruct es; [congruence|cbn [length]; lia].
    - exact (bc_ge_spec b es ridx W co q).
  Qed.

  (* offsets of the blocks of level k *)
  Definition offs (k : nat) : list N := match k with O => [root] | S k' => map coff (lseq k') end.
  Definition valid_pair (p : N * bcur) : Prop := exists b es ridx, bstore (fst p) = Some (b, es, ridx) /\ bc_blk (snd p) = b.
  Definition ok_pair (k : nat) (p : N * bcur) : Prop := valid_pair p \/ ~ In (fst p) (offs k).
  Fixpoint coherent (k : nat) (lv : list (N * bcur)) : Prop :=
    match lv with [] => True | p :: rest => ok_pair k p /\ coherent (S k) rest end.
  Fixpoint all_valid (lv : list (N * bcur)) : Prop :=
    match lv with [] => True | p :: rest => valid_pair p /\ all_valid rest end.

  Lemma all_valid_coherent lv : forall k, all_valid lv -> coherent k lv.
  Proof. induction lv as [|p r IH]; intros k H; cbn [coherent all_valid] in *; [exact I|]. destruct H; split; [left; assumption|auto]. Qed.

  (* the path selected by m from (level k, global index gp) going cnt levels down *)
  Fixpoint sdesc (m : mv) (k gp cnt : nat) : option nat :=
    match cnt with
    | O => Some gp
    | S c' => match nth_error (lseq k) gp with
              | None => None
              | Some pit => let j := sel m (kids pit) in
                            if Nat.ltb j (length (kids pit)) then sdesc m (S k) (gstart (lseq k) gp + j) c' else None
              end
    end.

  Lemma iter_gen m : absmove m -> forall lv k up gp pit n,
    positioned up k gp -> nth_error (lseq k) gp = Some pit -> item_ok pit -> coherent (S k) lv -> lv <> [] ->
    (forall k', (k < k' <= k + length lv)%nat -> Forall item_ok (lseq k')) ->
    exists lv' n' ok, iter_walk ld m n (coff pit) lv = Done (lv', n', ok) /\
      n <= n' <= n + N.of_nat (length lv) /\ length lv' = length lv /\
      match sdesc m k gp (length lv) with
      | Some g => ok = true /\ positioned (rev lv' ++ up) (k + length lv) g /\ all_valid lv'
      | None => ok = false /\ coherent (S k) lv'
      end.
  Proof.
    intro Hm. induction lv as [|[o c] rest IH]; intros k up gp pit n Hp Hn Hok Hc Hne Hitems; [congruence|].
    cbn [iter_walk]. destruct Hc as [Hokp Hrest].
    destruct (bstore (coff pit)) as [[[b es] ridx]|] eqn:E; [|destruct Hok as [_ Hx]; congruence].
    destruct (Hld _ _ _ _ E) as (Hl & W & Hnee).
    assert (Hk : kids pit = es) by (unfold kids; rewrite E; reflexivity).
    (* the cursor used at this level holds the parent's child block *)
    assert (Hcur : exists c0 n0, (if coff pit =? o then Done (o, c, n) else do b0 <- ld n (coff pit); Done (coff pit, bc_new b0, n + 1))
                                 = Done (coff pit, c0, n0) /\ bc_blk c0 = b /\ n <= n0 <= n + 1).
    { destruct (N.eqb_spec (coff pit) o) as [Eo|Eo].
      - subst o. exists c, n. split; [reflexivity|]. split; [|lia].
        destruct Hokp as [(b' & es' & r' & E' & Hb')|Hh]; cbn [fst snd] in *.
        + rewrite E in E'. injection E' as <- <- <-. exact Hb'.
        + exfalso. apply Hh. cbn [offs]. apply in_map. eapply nth_error_In; exact Hn.
      - rewrite (Hl n). cbn [bind]. exists (bc_new b), (n + 1). split; [reflexivity|]. split; [reflexivity|lia]. }
    destruct Hcur as (c0 & n0 & Ec & Hb0 & Hn0). rewrite Ec. cbn [bind].
    rewrite (abs_move m c0 (coff pit) b es ridx Hm E Hb0). cbn [bind].
    cbn [length sdesc]. rewrite Hn. cbv zeta. rewrite Hk. set (j := sel m es).
    destruct (nth_error es j) as [[kj obj]|] eqn:Ej.
    - assert (Hj : (j < length es)%nat) by (apply nth_error_Some; congruence).
      destruct (Nat.ltb_spec j (length es)); [|lia].
      set (c1 := mk_bcur b (Some (start es j))).
      assert (Hp1 : positioned ((coff pit, c1) :: up) (S k) (gstart (lseq k) gp + j)).
      { eapply pos_step; [exact Hp | exact Hn | exact Hok |]. exists b, es, ridx. auto. }
      assert (Hn1 : nth_error (lseq (S k)) (gstart (lseq k) gp + j) = Some (kj, obj)).
      { cbn [lseq]. rewrite (nth_flat _ _ _ _ Hn) by (rewrite Hk; exact Hj). rewrite Hk. exact Ej. }
      assert (Hok1 : item_ok (kj, obj)).
      { pose proof (Hitems (S k) ltac:(cbn [length]; lia)) as F. rewrite Forall_forall in F. apply F. eapply nth_error_In. exact Hn1. }
      pose proof (off_of_item (kj, obj) Hok1) as Ho1. cbn [snd] in Ho1. rewrite Ho1. cbn [bind].
      assert (Hv1 : valid_pair (coff pit, c1)) by (exists b, es, ridx; auto).
      destruct rest as [|p2 rest2].
      + cbn [iter_walk bind length sdesc rev app]. exists [(coff pit, c1)], n0, true.
        split; [reflexivity|]. split; [lia|]. split; [reflexivity|].
        replace (k + 1)%nat with (S k) by lia. split; [reflexivity|]. split; [exact Hp1|]. cbn [all_valid]. auto.
      + destruct (IH (S k) _ _ (kj, obj) n0 Hp1 Hn1 Hok1 Hrest ltac:(discriminate)
                     ltac:(intros k' Hk'; apply Hitems; cbn [length] in *; lia)) as (rest' & n' & ok & Er & Hn' & Hlen & Hres).
        rewrite Er. cbn [bind]. exists ((coff pit, c1) :: rest'), n', ok.
        split; [reflexivity|]. split; [cbn [length] in *; lia|]. split; [cbn [length]; rewrite Hlen; reflexivity|].
        replace (k + S (length (p2 :: rest2)))%nat with (S k + length (p2 :: rest2))%nat by lia.
        destruct (sdesc m (S k) (gstart (lseq k) gp + j) (length (p2 :: rest2))) as [g|].
        * destruct Hres as (A & B & C). split; [exact A|]. cbn [rev]. rewrite <- app_assoc. cbn [app].
          split; [exact B|]. cbn [all_valid]. auto.
        * destruct Hres as [A B]. split; [exact A|]. cbn [coherent]. split; [left; exact Hv1|exact B].
    - assert (Hj : (length es <= j)%nat) by (apply nth_error_None; exact Ej).
      destruct (Nat.ltb_spec j (length es)); [lia|].
      eexists _, n0, false. split; [reflexivity|]. split; [cbn [length]; lia|]. split; [reflexivity|].
      split; [reflexivity|]. cbn [coherent]. split; [|exact Hrest].
      left. exists b, es, ridx. cbn [fst snd bc_blk]. auto.
  Qed.

  (* file positions are distinct: a block of level k+1 is never a block of level k *)
  Hypothesis Hdisj : forall k it, In it (lseq k) -> ~ In (coff it) (offs k).

  Lemma init_gen m : absmove m -> forall depth k up gp pit n,
    positioned up k gp -> nth_error (lseq k) gp = Some pit -> item_ok pit ->
    (forall k', (k < k' <= k + depth)%nat -> Forall item_ok (lseq k')) ->
    exists res n', initial_blocks ld m depth n (coff pit) = Done (res, n') /\ n <= n' <= n + N.of_nat depth /\
      match sdesc m k gp depth with
      | Some g => exists lv', res = Some lv' /\ length lv' = depth /\ positioned (rev lv' ++ up) (k + depth) g /\ coherent (S k) lv'
      | None => res = None
      end.
  Proof.
    intro Hm. induction depth as [|depth IH]; intros k up gp pit n Hp Hn Hok Hitems.
    - cbn [initial_blocks sdesc]. exists (Some []), n. split; [reflexivity|]. split; [lia|].
      exists []. cbn [rev app length coherent]. replace (k + 0)%nat with k by lia. auto.
    - cbn [initial_blocks].
      destruct (bstore (coff pit)) as [[[b es] ridx]|] eqn:E; [|destruct Hok as [_ Hx]; congruence].
      destruct (Hld _ _ _ _ E) as (Hl & W & Hnee).
      assert (Hk : kids pit = es) by (unfold kids; rewrite E; reflexivity).
      rewrite (Hl n). cbn [bind]. rewrite (abs_move m (bc_new b) (coff pit) b es ridx Hm E eq_refl). cbn [bind].
      cbn [sdesc]. rewrite Hn. cbv zeta. rewrite Hk. set (j := sel m es).
      destruct (nth_error es j) as [[kj obj]|] eqn:Ej.
      + assert (Hj : (j < length es)%nat) by (apply nth_error_Some; congruence).
        destruct (Nat.ltb_spec j (length es)); [|lia].
        set (c1 := mk_bcur b (Some (start es j))).
        assert (Hn1 : nth_error (lseq (S k)) (gstart (lseq k) gp + j) = Some (kj, obj)).
        { cbn [lseq]. rewrite (nth_flat _ _ _ _ Hn) by (rewrite Hk; exact Hj). rewrite Hk. exact Ej. }
        assert (Hok1 : item_ok (kj, obj)).
        { pose proof (Hitems (S k) ltac:(lia)) as F. rewrite Forall_forall in F. apply F. eapply nth_error_In. exact Hn1. }
        pose proof (off_of_item (kj, obj) Hok1) as Ho1. cbn [snd] in Ho1. rewrite Ho1. cbn [bind].
        assert (Hp1 : forall o, positioned ((o, c1) :: up) (S k) (gstart (lseq k) gp + j)).
        { intro o. eapply pos_step; [exact Hp | exact Hn | exact Hok |]. exists b, es, ridx. auto. }
        destruct (IH (S k) _ _ (kj, obj) (n + 1) (Hp1 (coff (kj, obj))) Hn1 Hok1
                     ltac:(intros k' Hk'; apply Hitems; lia)) as (res & n' & Er & Hn' & Hres).
        rewrite Er. cbn [bind]. 
        replace (k + S depth)%nat with (S k + depth)%nat by lia.
        destruct (sdesc m (S k) (gstart (lseq k) gp + j) depth) as [g|].
        * destruct Hres as (lv' & -> & Hlen & Hpos & Hcoh).
          exists (Some ((coff (kj, obj), c1) :: lv')), n'. split; [reflexivity|]. split; [lia|].
          exists ((coff (kj, obj), c1) :: lv'). split; [reflexivity|]. split; [cbn [length]; lia|].
          cbn [rev]. rewrite <- app_assoc. cbn [app]. split; [exact Hpos|].
          cbn [coherent]. split; [|exact Hcoh]. right. cbn [fst]. apply Hdisj. eapply nth_error_In. exact Hn1.
        * subst res. exists None, n'. split; [reflexivity|]. split; [lia|reflexivity].
      + assert (Hj : (length es <= j)%nat) by (apply nth_error_None; exact Ej).
        destruct (Nat.ltb_spec j (length es)); [lia|].
        exists None, (n + 1). split; [reflexivity|]. split; [lia|reflexivity].
  Qed.

  (* ---- from the root ---- *)
  Definition sroot (m : mv) (cnt : nat) : option nat :=
    match cnt with
    | O => None
    | S c' => let j := sel m root_items in if Nat.ltb j (length root_items) then sdesc m 0 j c' else None
    end.

  Variable rb : block.
  Variable rridx : list nat.
  Hypothesis Hroot : bstore root = Some (rb, root_items, rridx).

  Theorem iter_root m : absmove m -> forall lv n, coherent 0 lv -> lv <> [] ->
    (forall k', (k' < length lv)%nat -> Forall item_ok (lseq k')) ->
    exists lv' n' ok, iter_walk ld m n root lv = Done (lv', n', ok) /\
      n <= n' <= n + N.of_nat (length lv) /\ length lv' = length lv /\
      match sroot m (length lv) with
      | Some g => ok = true /\ positioned (rev lv') (length lv - 1) g /\ all_valid lv'
      | None => ok = false /\ coherent 0 lv'
      end.
  Proof.
    intros Hm lv n Hc Hne Hitems. destruct lv as [|[o c] rest]; [congruence|].
    cbn [iter_walk]. destruct Hc as [Hokp Hrest].
    destruct (Hld _ _ _ _ Hroot) as (Hl & W & Hnee).
    assert (Hcur : exists c0 n0, (if root =? o then Done (o, c, n) else do b0 <- ld n root; Done (root, bc_new b0, n + 1))
                                 = Done (root, c0, n0) /\ bc_blk c0 = rb /\ n <= n0 <= n + 1).
    { destruct (N.eqb_spec root o) as [Eo|Eo].
      - subst o. exists c, n. split; [reflexivity|]. split; [|lia].
        destruct Hokp as [(b' & es' & r' & E' & Hb')|Hh]; cbn [fst snd] in *.
        + rewrite Hroot in E'. injection E' as <- _ _. exact Hb'.
        + exfalso. apply Hh. left. reflexivity.
      - rewrite (Hl n). cbn [bind]. exists (bc_new rb), (n + 1). split; [reflexivity|]. split; [reflexivity|lia]. }
    destruct Hcur as (c0 & n0 & Ec & Hb0 & Hn0). rewrite Ec. cbn [bind].
    rewrite (abs_move m c0 root rb root_items rridx Hm Hroot Hb0). cbn [bind].
    cbn [length sroot]. cbv zeta. set (j := sel m root_items).
    destruct (nth_error root_items j) as [[kj obj]|] eqn:Ej.
    - assert (Hj : (j < length root_items)%nat) by (apply nth_error_Some; congruence).
      destruct (Nat.ltb_spec j (length root_items)); [|lia].
      set (c1 := mk_bcur rb (Some (start root_items j))).
      assert (Hp1 : positioned [(root, c1)] 0 j) by (apply pos_root; exists rb, root_items, rridx; auto).
      assert (Hn1 : nth_error (lseq 0) j = Some (kj, obj)) by exact Ej.
      assert (Hok1 : item_ok (kj, obj)).
      { pose proof (Hitems 0%nat ltac:(cbn [length]; lia)) as F. rewrite Forall_forall in F. apply F. eapply nth_error_In. exact Hn1. }
      pose proof (off_of_item (kj, obj) Hok1) as Ho1. cbn [snd] in Ho1. rewrite Ho1. cbn [bind].
      assert (Hv1 : valid_pair (root, c1)) by (exists rb, root_items, rridx; auto).
      destruct rest as [|p2 rest2].
      + cbn [iter_walk bind sdesc rev app length]. exists [(root, c1)], n0, true.
        split; [reflexivity|]. split; [lia|]. split; [reflexivity|].
        split; [reflexivity|]. split; [exact Hp1|]. cbn [all_valid]. auto.
      + destruct (iter_gen m Hm (p2 :: rest2) 0%nat [(root, c1)] j (kj, obj) n0 Hp1 Hn1 Hok1 Hrest ltac:(discriminate)
                   ltac:(intros k' Hk'; apply Hitems; cbn [length] in *; lia)) as (rest' & n' & ok & Er & Hn' & Hlen & Hres).
        rewrite Er. cbn [bind]. exists ((root, c1) :: rest'), n', ok.
        split; [reflexivity|]. split; [cbn [length] in *; lia|]. split; [cbn [length]; rewrite Hlen; reflexivity|].
        cbn [plus] in Hres. replace (S (length (p2 :: rest2)) - 1)%nat with (length (p2 :: rest2)) by lia.
        destruct (sdesc m 0 j (length (p2 :: rest2))) as [g|].
        * destruct Hres as (A & B & C). split; [exact A|]. cbn [rev]. split; [exact B|]. cbn [all_valid]. auto.
        * destruct Hres as [A B]. split; [exact A|]. cbn [coherent]. split; [left; exact Hv1|exact B].
    - assert (Hj : (length root_items <= j)%nat) by (apply nth_error_None; exact Ej).
      destruct (Nat.ltb_spec j (length root_items)); [lia|].
      eexists _, n0, false. split; [reflexivity|]. split; [cbn [length]; lia|]. split; [reflexivity|].
      split; [reflexivity|]. cbn [coherent]. split; [|exact Hrest].
      left. exists rb, root_items, rridx. cbn [fst snd bc_blk]. auto.
  Qed.

  Theorem init_root m : absmove m -> forall depth n, (0 < depth)%nat ->
    (forall k', (k' < depth)%nat -> Forall item_ok (lseq k')) ->
    exists res n', initial_blocks ld m depth n root = Done (res, n') /\ n <= n' <= n + N.of_nat depth /\
      match sroot m depth with
      | Some g => exists lv', res = Some lv' /\ length lv' = depth /\ positioned (rev lv') (depth - 1) g /\ coherent 0 lv'
      | None => res = None
      end.
  Proof.
    intros Hm depth n Hd Hitems. destruct depth as [|depth]; [lia|].
    cbn [initial_blocks].
    destruct (Hld _ _ _ _ Hroot) as (Hl & W & Hnee).
    rewrite (Hl n). cbn [bind]. rewrite (abs_move m (bc_new rb) root rb root_items rridx Hm Hroot eq_refl). cbn [bind].
    cbn [sroot]. cbv zeta. set (j := sel m root_items).
    destruct (nth_error root_items j) as [[kj obj]|] eqn:Ej.
    - assert (Hj : (j < length root_items)%nat) by (apply nth_error_Some; congruence).
      destruct (Nat.ltb_spec j (length root_items)); [|lia].
      set (c1 := mk_bcur rb (Some (start root_items j))).
      assert (Hn1 : nth_error (lseq 0) j = Some (kj, obj)) by exact Ej.
      assert (Hok1 : item_ok (kj, obj)).
      { pose proof (Hitems 0%nat ltac:(lia)) as F. rewrite Forall_forall in F. apply F. eapply nth_error_In. exact Hn1. }
      pose proof (off_of_item (kj, obj) Hok1) as Ho1. cbn [snd] in Ho1. rewrite Ho1. cbn [bind].
      assert (Hp1 : positioned [(coff (kj, obj), c1)] 0 j) by (apply pos_root; exists rb, root_items, rridx; auto).
      destruct (init_gen m Hm depth 0%nat [(coff (kj, obj), c1)] j (kj, obj) (n + 1) Hp1 Hn1 Hok1
                   ltac:(intros k' Hk'; apply Hitems; lia)) as (res & n' & Er & Hn' & Hres).
      rewrite Er. cbn [bind]. cbn [plus] in Hres. replace (S depth - 1)%nat with depth by lia.
      destruct (sdesc m 0 j depth) as [g|].
      + destruct Hres as (lv' & -> & Hlen & Hpos & Hcoh).
        exists (Some ((coff (kj, obj), c1) :: lv')), n'. split; [reflexivity|]. split; [lia|].
        exists ((coff (kj, obj), c1) :: lv'). split; [reflexivity|]. split; [cbn [length]; lia|].
        cbn [rev]. split; [exact Hpos|]. cbn [coherent]. split; [|exact Hcoh].
        right. cbn [fst]. apply (Hdisj 0%nat). eapply nth_error_In. exact Hn1.
      + subst res. exists None, n'. split; [reflexivity|]. split; [lia|reflexivity].
    - assert (Hj : (length root_items <= j)%nat) by (apply nth_error_None; exact Ej).
      destruct (Nat.ltb_spec j (length root_items)); [lia|].
      exists None, (n + 1). split; [reflexivity|]. split; [lia|reflexivity].
  Qed.

  (* the item under the deepest cursor of a positioned stack *)
  Lemma positioned_current st d g : positioned st d g ->
    last_current (rev st) = Done (nth_error (lseq d) g).
  Proof.
    intro H. assert (E : exists o c, st = (o, c) :: tl st /\ bc_current c = Done (nth_error (lseq d) g)).
    { destruct H as [o c g (b & es & ridx & E & H1 & H2 & H3) | o c up d gp pit j Hp Hn Hok (b & es & ridx & E & H1 & H2 & H3)].
      - exists o, c. split; [reflexivity|]. destruct (Hld _ _ _ _ E) as (_ & W & _).
        destruct c as [cb co]; cbn [bc_blk bc_off] in *; subst cb co.
        rewrite (bc_current_start b es ridx W g ltac:(lia)). cbn [lseq]. unfold root_items. rewrite E. reflexivity.
      - exists o, c. split; [reflexivity|]. destruct (Hld _ _ _ _ E) as (_ & W & _).
        destruct c as [cb co]; cbn [bc_blk bc_off] in *; subst cb co.
        rewrite (bc_current_start b es ridx W j ltac:(lia)). cbn [lseq].
        assert (Hk : kids pit = es) by (unfold kids; rewrite E; reflexivity).
        rewrite (nth_flat _ _ _ _ Hn) by (rewrite Hk; exact H3). rewrite Hk. reflexivity. }
    destruct E as (o & c & Est & Ecur). rewrite Est. unfold last_current. cbn [rev].
    assert (L : forall (l : list (N * bcur)) x, last_opt (l ++ [x]) = Some x) by (intros; apply last_opt_snoc).
    rewrite L. exact Ecur.
  Qed.
End Refine.
