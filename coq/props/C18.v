(* C18 — A writer never emits an unsorted block: out-of-order inserts panic.  Statements only. *)
From Grenad.model Require Import Base Block Spec Format.
From Grenad.proofs Require Import BlockProofs FormatProofs.

(* block level, every insert sequence (sorted or not, duplicates or not): the block under
   construction either panics or holds exactly the inserted entries with strictly ascending keys *)
Theorem C18_block_sorted_or_panic : forall ins w es0,
  bw_ok w es0 ->
  (exists w', bw_insert_all w ins = Done w' /\ bw_ok w' (es0 ++ ins) /\ bw_interval w' = bw_interval w)
  \/ bw_insert_all w ins = Panic.
Proof. exact bw_insert_all_dichotomy. Qed.
Print Assumptions C18_block_sorted_or_panic.

(* the panic point: an insert panics exactly when the key (or value) is longer than u32::MAX or the
   key is not strictly greater than the last key of the block under construction *)
Theorem C18_panic_point : forall w es k v,
  bw_ok w es ->
  (entry_ok (k, v) /\ match last_opt es with Some (lk, _) => bytes_ltb lk k = true | None => True end ->
   exists w', bw_insert w k v = Done w' /\ bw_ok w' (es ++ [(k, v)]) /\ bw_interval w' = bw_interval w) /\
  (~ (entry_ok (k, v) /\ match last_opt es with Some (lk, _) => bytes_ltb lk k = true | None => True end) ->
   bw_insert w k v = Panic).
Proof. exact bw_insert_spec. Qed.
Print Assumptions C18_panic_point.

(* what a reader decodes from a finished block is strictly ascending *)
Theorem C18_finished_block_sorted : forall w es, bw_ok w es -> block_sorted (with_starts es 0) = true.
Proof. exact finished_block_sorted. Qed.
Print Assumptions C18_finished_block_sorted.

(* non-vacuity: a duplicate next to its predecessor panics, ascending keys are accepted *)
Example C18_examples :
  bw_insert_all (bw_new 8) [([1], [7]); ([1], [8])] = Panic /\
  bw_insert_all (bw_new 8) [([2], [7]); ([1], [8])] = Panic /\
  (exists w, bw_insert_all (bw_new 8) [([], []); ([0], [8]); ([0; 0], [])] = Done w).
Proof. split; [vm_compute; reflexivity|]. split; [vm_compute; reflexivity|]. eexists. vm_compute. reflexivity. Qed.

(* ---- the whole writer (data block, every index level, cascade and final flush), over ANY sink and
   for ANY insert sequence: a run that neither panics nor fails has emitted only blocks that are the
   finish of a legal block writer — each parses and decodes to strictly ascending keys ---- *)
From Grenad.model Require Import Trailer Writer.
From Grenad.proofs Require Import WriterInv.
Theorem C18_writer_blocks_legal : forall SK wr fl cnt compress c s0 es i s lg m,
  12 < wc_block_size c -> wc_levels c < 256 ->
  w_run_gen SK wr fl cnt compress c s0 es = (i, Done (s, lg, m)) ->
  Forall em_legal lg.
Proof. intros SK wr fl cnt compress c s0 es i s lg m HB HL H. exact (proj1 (w_run_gen_blocks SK wr fl cnt compress c HB s0 es i s lg m HL H)). Qed.
Print Assumptions C18_writer_blocks_legal.

Theorem C18_legal_block_is_sorted : forall e, em_legal e -> len (em_bytes e) < 2^64 ->
  exists b es, parse_block (em_bytes e) = Done b /\ block_entries b = Done (with_starts es 0) /\
               block_sorted (with_starts es 0) = true.
Proof. exact em_legal_decodes. Qed.
Print Assumptions C18_legal_block_is_sorted.

(* the runs executed by the correspondence (plain sink): file produced => all blocks legal *)
Theorem C18_sorted_or_panic : forall compress c es,
  12 < wc_block_size c -> wc_levels c < 256 ->
  match w_run compress c es with
  | WFile f log m => Forall em_legal log
  | WPanicInsert _ | WPanicFinish | WFail _ => True
  end.
Proof.
  intros compress c es HB HL. destruct (w_run compress c es) as [f log m| | |] eqn:E; try exact I.
  exact (proj1 (w_run_blocks compress c es f log m HB HL E)).
Qed.
Print Assumptions C18_sorted_or_panic.

(* the converse: the order assertions never fire on a strictly ascending input — no insert and no
   flush panics or fails (entries within the u32 length limit, fewer than 2^32 - 1 of them, a codec
   that does not fail); so a panic of the writer means an out-of-order key *)
From Coq Require Import Sorted.
From Grenad.proofs Require Import SortedFacts BlockProofs WriterProgress.

Theorem C18_sorted_input_never_panics : forall compress decompress c,
  (forall b z, compress (wc_codec c) (wc_level c) b = Done z -> decompress (wc_codec c) z = Done b) ->
  (forall b, exists z, compress (wc_codec c) (wc_level c) b = Done z) ->
  forall es, StronglySorted blt (map fst es) -> entries_ok es -> len es + 1 <= U32_MAX -> wc_levels c < 256 ->
  exists s lg m, w_run_gen vsink vs_wr vs_fl vs_count compress c vs_empty es = (len es, Done (s, lg, m)).
Proof. exact w_run_progress. Qed.
Print Assumptions C18_sorted_input_never_panics.
