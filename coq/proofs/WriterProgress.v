(* Backbone W, part 4: progress.  On a strictly ascending input whose entries respect the u32 length
   limit, with fewer than 2^32 - 1 entries and a codec that never fails, the writer model never panics
   and never fails: every insert and the final flush return.  (The order assertion of every block
   insert holds because every level of the index tree, emitted blocks followed by pending entries, is
   strictly ascending; the u32 footer count holds because no block has more entries than the input.) *)
From Coq Require Import Lia ZArith ZifyN ZifyBool ZifyNat Sorted.
From Grenad.gen Require Import Consts.
From Grenad.model Require Import Base Varint Block Trailer Writer Reader Spec Format.
From Grenad.proofs Require Import BaseProofs SortedFacts BlockProofs FormatProofs TrailerProofs BlockCursorProofs WriterInv WriterLayout WriterTree ReaderRefine WriterStore.
Ltac Zify.zify_post_hook ::= Z.div_mod_to_equations.

Arguments w_data {SK} _. Arguments w_idx {SK} _. Arguments w_count {SK} _.
Arguments w_sink {SK} _. Arguments w_log {SK} _. Arguments mk_wstate {SK} _ _ _ _ _.

Lemma bw_track_length interval es : forall pos ctr offs p c o,
  bw_track interval es pos ctr offs = (p, c, o) -> (length o <= length offs + length es)%nat.
Proof.
  induction es as [|e es IH]; intros pos ctr offs p c o H; cbn [bw_track] in H.
  - injection H as _ _ <-. cbn [length]. lia.
  - destruct (ctr =? interval); apply IH in H; cbn [length] in *; lia.
Qed.

Lemma bw_ok_noffsets w es : bw_ok w es -> bw_noffsets w <= 1 + len es.
Proof.
  intros [_ _ _ Hno Htr _ _]. rewrite Hno. apply bw_track_length in Htr. cbn [length] in Htr. rewrite !len_length. lia.
Qed.

Lemma sorted_snoc_last (es : list entry) k v : StronglySorted blt (map fst (es ++ [(k, v)])) ->
  match last_opt es with Some (lk, _) => bytes_ltb lk k = true | None => True end.
Proof.
  intro H. destruct (last_opt es) as [[lk lv]|] eqn:E; [|exact I].
  destruct es as [|e0 es0]; [discriminate|].
  destruct (last_opt_nonempty (e0 :: es0) ltac:(discriminate)) as (a & l' & El & Ea). rewrite E in Ea. injection Ea as <-.
  rewrite El, <- app_assoc, map_app in H. apply SS_app_inv in H. destruct H as (_ & H & _).
  cbn [app map fst] in H. inversion H as [|? ? _ Hf]; subst. inversion Hf; subst. assumption.
Qed.

Section Progress.
  Variable compress : N -> N -> bytes -> outcome bytes.
  Variable decompress : N -> bytes -> outcome bytes.
  Variable c : wcfg.
  Hypothesis codec_ok : forall b z, compress (wc_codec c) (wc_level c) b = Done z -> decompress (wc_codec c) z = Done b.
  Hypothesis compress_total : forall b, exists z, compress (wc_codec c) (wc_level c) b = Done z.
  Notation L := (wc_levels c).

  (* the whole input *)
  Variable all : list entry.
  Hypothesis Hsorted : StronglySorted blt (map fst all).
  Hypothesis Hok : entries_ok all.
  Hypothesis Hlen : len all + 1 <= U32_MAX.

  Definition NE (gl : list gentry) : Prop := forall p, In p gl -> snd p <> [].
  Definition prefix_of_all (ins : list entry) : Prop := exists rest, all = ins ++ rest.
  Definition lvl (gl : list gentry) (pes : N -> list entry) (k : N) : list entry := flat_map snd (gblocks k gl) ++ pes k.

  Lemma prefix_sorted ins : prefix_of_all ins -> StronglySorted blt (map fst ins).
  Proof. intros (rest & E). pose proof Hsorted as H. rewrite E, map_app in H. apply SS_app_inv in H. tauto. Qed.

  Lemma prefix_len ins : prefix_of_all ins -> (length ins <= length all)%nat.
  Proof. intros (rest & E). rewrite E, app_length. lia. Qed.

  Lemma prefix_keys_ok ins k : prefix_of_all ins -> In k (map fst ins) -> len k <= U32_MAX.
  Proof.
    intros (rest & E) Hin. apply in_map_iff in Hin. destruct Hin as ([k0 v0] & <- & Hin).
    pose proof Hok as H. unfold entries_ok in H. rewrite Forall_forall in H.
    destruct (H (k0, v0) ltac:(rewrite E; apply in_or_app; left; exact Hin)) as [A _]. exact A.
  Qed.

  Lemma Gst_NE s lg gl pes ins : Gst compress c s lg gl pes ins -> NE gl.
  Proof.
    intros ((_ & _ & He & _) & Hnz) p Hp Hx. rewrite Forall_forall in He, Hnz.
    destruct (He p Hp) as [_ H0]. specialize (H0 Hx). specialize (Hnz p Hp). unfold nz in Hnz. lia.
  Qed.

  (* every level of the tree, emitted blocks followed by the pending entries: strictly ascending, keys
     among the inserted keys, no longer than the input *)
  Lemma level_facts gl pes ins : TI L gl pes ins -> NE gl -> StronglySorted blt (map fst ins) ->
    forall d k, k + N.of_nat d = L + 1 ->
    StronglySorted blt (map fst (lvl gl pes k)) /\ incl (map fst (lvl gl pes k)) (map fst ins) /\
    (length (lvl gl pes k) <= length ins)%nat.
  Proof.
    intros [HT1 HT2] Hne Hs. induction d as [|d IH]; intros k Hk.
    - assert (Ek : k = L + 1) by lia. rewrite Ek. unfold lvl. rewrite HT2. split; [exact Hs|]. split; [apply incl_refl|lia].
    - assert (Hk' : k <= L) by lia. destruct (IH (k + 1) ltac:(lia)) as (A & B & C).
      unfold lvl in *. rewrite (HT1 k Hk'). set (B1 := gblocks (k + 1) gl) in *.
      assert (HneB : forall p, In p B1 -> snd p <> []).
      { intros p Hp. apply Hne. unfold B1, gblocks in Hp. apply filter_In in Hp. tauto. }
      rewrite map_app in A. apply SS_app_inv in A. destruct A as (A1 & _ & _).
      split; [rewrite map_map; exact (last_keys_sorted B1 HneB A1)|]. split.
      + intros x Hx. rewrite map_map in Hx. apply in_map_iff in Hx. destruct Hx as (p & <- & Hp). cbn [item_of fst].
        apply B. rewrite map_app. apply in_or_app. left.
        pose proof (last_key_in (snd p) (HneB p Hp)) as Hl. apply in_map_iff in Hl. destruct Hl as (x & Ex & Hx).
        apply in_map_iff. exists x. split; [exact Ex|]. apply in_flat_map. exists p. auto.
      + rewrite map_length. rewrite app_length in C.
        assert (Hle : (length B1 <= length (flat_map snd B1))%nat).
        { clear -HneB. induction B1 as [|p B1 IH]; [cbn; lia|]. cbn [flat_map length]. rewrite app_length.
          assert (snd p <> []) by (apply HneB; left; reflexivity).
          assert (length B1 <= length (flat_map snd B1))%nat by (apply IH; intros q Hq; apply HneB; right; exact Hq).
          destruct (snd p); [congruence|cbn [length]; lia]. }
        lia.
  Qed.

  Lemma level_facts_k gl pes ins k : TI L gl pes ins -> NE gl -> prefix_of_all ins -> k <= L + 1 ->
    StronglySorted blt (map fst (lvl gl pes k)) /\ incl (map fst (lvl gl pes k)) (map fst ins) /\
    (length (lvl gl pes k) <= length ins)%nat.
  Proof.
    intros HT Hne Hp Hk. apply (level_facts gl pes ins HT Hne (prefix_sorted ins Hp) (N.to_nat (L + 1 - k)) k). lia.
  Qed.

  (* ---- finishing a pending block never panics ---- *)
  Lemma cwb_ok s lg gl pes ins w lvl0 k : Gst compress c s lg gl pes ins -> prefix_of_all ins -> k <= L + 1 ->
    bw_okI c w (pes k) -> exists s1 w1 e, cwb vsink vs_wr vs_count compress c s w lvl0 = Done (s1, w1, e).
  Proof.
    intros HG Hp Hk [Hw _]. unfold cwb, bw_finish.
    assert (Hn : bw_noffsets w <= U32_MAX).
    { pose proof (bw_ok_noffsets w (pes k) Hw) as H1.
      pose proof HG as ((_ & _ & _ & HT) & _).
      destruct (level_facts_k gl pes ins k HT (Gst_NE _ _ _ _ _ HG) Hp Hk) as (_ & _ & C).
      unfold lvl in C. rewrite app_length in C. pose proof (prefix_len ins Hp). rewrite !len_length in *. lia. }
    destruct (N.ltb_spec U32_MAX (bw_noffsets w)); [lia|]. cbn [bind].
    destruct (compress_total (bw_buf w ++ flat_map (be_bytes 8) (rev (bw_offsets w)) ++ be_bytes 4 (bw_noffsets w))) as (z & Ez).
    rewrite Ez. cbn [bind]. unfold vs_wr. cbn [bind]. eexists _, _, _. reflexivity.
  Qed.

  Lemma gblocks_snoc_other k gl p : em_level (fst p) <> k -> gblocks k (gl ++ [p]) = gblocks k gl.
  Proof.
    intro H. rewrite gblocks_snoc. destruct (N.eqb_spec (em_level (fst p)) k); [contradiction|apply app_nil_r].
  Qed.

  (* ---- recording a finished child in its parent never panics ---- *)
  Lemma parent_insert_ok s lg gl pes ins cur parent lvl0 lk off :
    Gst compress c s lg gl pes ins -> prefix_of_all ins -> 1 <= lvl0 <= L + 1 ->
    bw_okI c cur (pes lvl0) -> bw_okI c parent (pes (lvl0 - 1)) -> bw_last cur = Some lk ->
    exists parent', bw_insert parent lk (be_bytes 8 off) = Done parent' /\
                    bw_okI c parent' (pes (lvl0 - 1) ++ [(lk, be_bytes 8 off)]).
  Proof.
    intros HG Hp Hl [Hcok Hci] [Hpok Hpi] El.
    destruct (last_key_of cur (pes lvl0) lk Hcok El) as [Hlk Hne].
    pose proof HG as ((_ & _ & _ & HT) & _). pose proof (Gst_NE _ _ _ _ _ HG) as HNE.
    (* the ghost state after the emission *)
    set (e := mk_emitted lvl0 0 []).
    set (gl1 := gl ++ [(e, pes lvl0)]).
    set (pes1 := upd (upd pes lvl0 []) (lvl0 - 1) (pes (lvl0 - 1) ++ [item_of (e, pes lvl0)])).
    assert (HT1 : TI L gl1 pes1 ins) by (apply TI_emit; [exact HT|lia|reflexivity]).
    assert (HNE1 : NE gl1).
    { intros p Hin. unfold gl1 in Hin. apply in_app_or in Hin. destruct Hin as [Hin|[<-|[]]]; [apply HNE; exact Hin|exact Hne]. }
    destruct (level_facts_k gl1 pes1 ins (lvl0 - 1) HT1 HNE1 Hp ltac:(lia)) as (A & _ & _).
    unfold lvl in A. unfold gl1 in A at 1. rewrite gblocks_snoc_other in A by (cbn [fst e em_level]; lia).
    assert (P1 : pes1 (lvl0 - 1) = pes (lvl0 - 1) ++ [(lk, be_bytes 8 0)]).
    { unfold pes1, upd. rewrite N.eqb_refl. unfold item_of. cbn [fst snd e em_offset]. rewrite Hlk. reflexivity. }
    rewrite P1, map_app in A. apply SS_app_inv in A. destruct A as (_ & A & _).
    pose proof (sorted_snoc_last _ _ _ A) as Hcond.
    (* the key is one of the inserted keys *)
    destruct (level_facts_k gl pes ins lvl0 HT HNE Hp ltac:(lia)) as (_ & B & _).
    assert (Hklen : len lk <= U32_MAX).
    { apply (prefix_keys_ok ins lk Hp). apply B. unfold lvl. rewrite map_app. apply in_or_app. right.
      rewrite <- Hlk. apply last_key_in. exact Hne. }
    destruct (bw_insert_spec parent (pes (lvl0 - 1)) lk (be_bytes 8 off) Hpok) as [Hgood _].
    destruct Hgood as (parent' & E & Hok' & Hi').
    { split; [|exact Hcond]. unfold entry_ok. cbn [fst snd]. split; [exact Hklen|].
      rewrite len_length, be_bytes_length. change U32_MAX with 4294967295. lia. }
    exists parent'. split; [exact E|]. split; [exact Hok'|congruence].
  Qed.

  (* ---- the state after an emission (the step shared by cascade, insert, flush) ---- *)
  Lemma emit_step s lg gl pes ins cur parent lvl0 lk parent' s1 cur' e :
    Gst compress c s lg gl pes ins -> 1 <= lvl0 <= L + 1 ->
    bw_okI c cur (pes lvl0) -> bw_okI c parent (pes (lvl0 - 1)) -> bw_last cur = Some lk ->
    bw_insert parent lk (be_bytes 8 (vs_count s)) = Done parent' ->
    cwb vsink vs_wr vs_count compress c s cur lvl0 = Done (s1, cur', e) ->
    let gl1 := gl ++ [(e, pes lvl0)] in
    let pes1 := upd (upd pes lvl0 []) (lvl0 - 1) (pes (lvl0 - 1) ++ [item_of (e, pes lvl0)]) in
    Gst compress c s1 (e :: lg) gl1 pes1 ins /\ bw_okI c parent' (pes1 (lvl0 - 1)) /\ bw_okI c cur' (pes1 lvl0) /\
    (forall k, k <> lvl0 -> k <> lvl0 - 1 -> pes1 k = pes k).
  Proof.
    intros HG Hl Hcur Hpar El Ep Ec. cbv zeta.
    destruct HG as ((Hs & Hm & He & HT) & Hnz). destruct Hcur as [Hcok Hci]. destruct Hpar as [Hpok Hpi].
    pose proof (cwb_layout compress decompress c codec_ok s lg cur lvl0 s1 cur' e Ec Hs) as Hs1.
    pose proof (cwb_offset compress c s cur lvl0 s1 cur' e Ec) as Hoff.
    destruct (cwb_spec vsink vs_wr vs_count compress c s cur lvl0 s1 cur' e Ec) as (Hf & Hel & Hcur').
    destruct (last_key_of cur (pes lvl0) lk Hcok El) as [Hlk Hne].
    destruct (bw_insert_ok parent (pes (lvl0 - 1)) lk _ parent' Hpok Ep) as [Hpok' Hpi'].
    assert (Hitem : item_of (e, pes lvl0) = (lk, be_bytes 8 (vs_count s))).
    { unfold item_of. cbn [fst snd]. rewrite Hlk, Hoff. reflexivity. }
    split; [|split; [|split]].
    - split; [|apply Forall_app; split; [exact Hnz|]; constructor; [unfold nz; cbn [fst]; lia|constructor]].
      split; [exact Hs1|]. split; [rewrite map_app; cbn [map fst rev]; rewrite Hm; reflexivity|].
      split; [apply Forall_app; split; [exact He|]; constructor; [|constructor];
              apply (ents_intro c _ _ cur); [split; assumption|exact Hf|intro Hx; exfalso; exact (Hne Hx)]|].
      apply TI_emit; [exact HT | lia | exact Hel].
    - unfold upd. rewrite N.eqb_refl. rewrite Hitem. split; [exact Hpok'|congruence].
    - unfold upd. destruct (N.eqb_spec lvl0 (lvl0 - 1)); [lia|]. rewrite N.eqb_refl.
      subst cur'. split; [apply bw_reset_ok|]. unfold bw_reset, bw_new. cbn [bw_interval]. exact Hci.
    - intros k H1 H2. unfold upd. destruct (N.eqb_spec k (lvl0 - 1)); [contradiction|]. destruct (N.eqb_spec k lvl0); [contradiction|reflexivity].
  Qed.

  (* ---- the cascade over the index levels ---- *)
  Lemma cascade_prog : forall up s lg cur lvl0 gl pes ins,
    lvl0 = len up + 1 -> lvl0 <= L -> Gst compress c s lg gl pes ins -> prefix_of_all ins ->
    bw_okI c cur (pes lvl0) -> uplink c pes lvl0 up ->
    exists r, cascade_from vsink vs_wr vs_count compress c s lg cur lvl0 up = Done r.
  Proof.
    induction up as [|parent up IH]; intros s lg cur lvl0 gl pes ins Hlvl HL HG Hp Hcur Hup; cbn [cascade_from].
    - eexists. reflexivity.
    - rewrite len_cons in Hlvl. cbn [uplink] in Hup. destruct Hup as [Hpar Hup'].
      assert (Hnocut : exists r, (do r2 <- cascade_from vsink vs_wr vs_count compress c s lg parent (lvl0 - 1) up;
                                  let '(s'', lg'', ups) := r2 in Done (s'', lg'', cur :: ups)) = Done r).
      { destruct (IH s lg parent (lvl0 - 1) gl pes ins ltac:(lia) ltac:(lia) HG Hp Hpar Hup') as ([[s2 lg2] ups] & E).
        rewrite E. cbn [bind]. eexists. reflexivity. }
      destruct (wc_block_size c <=? bw_size cur); [|exact Hnocut].
      destruct (bw_last cur) as [lk|] eqn:El; [|exact Hnocut].
      destruct (parent_insert_ok s lg gl pes ins cur parent lvl0 lk (vs_count s) HG Hp ltac:(lia) Hcur Hpar El) as (parent' & Ep & _).
      rewrite Ep. cbn [bind].
      destruct (cwb_ok s lg gl pes ins cur lvl0 lvl0 HG Hp ltac:(lia) Hcur) as (s1 & cur' & e & Ec). rewrite Ec. cbn [bind].
      destruct (emit_step s lg gl pes ins cur parent lvl0 lk parent' s1 cur' e HG ltac:(lia) Hcur Hpar El Ep Ec) as (HG1 & Hpar1 & _ & Hsame).
      set (gl1 := gl ++ [(e, pes lvl0)]) in *.
      set (pes1 := upd (upd pes lvl0 []) (lvl0 - 1) (pes (lvl0 - 1) ++ [item_of (e, pes lvl0)])) in *.
      assert (Hup1 : uplink c pes1 (lvl0 - 1) up).
      { apply (uplink_ext c pes pes1 up (lvl0 - 1)); [lia| |exact Hup']. intros k Hk. apply Hsame; lia. }
      destruct (IH s1 (e :: lg) parent' (lvl0 - 1) gl1 pes1 ins ltac:(lia) ltac:(lia) HG1 Hp Hpar1 Hup1) as ([[s2 lg2] ups] & E).
      rewrite E. cbn [bind]. eexists. reflexivity.
  Qed.

  (* ---- Writer::insert ---- *)
  Lemma data_insert_ok st gl pes ins k v : WT compress c st gl pes ins -> prefix_of_all (ins ++ [(k, v)]) ->
    exists d, bw_insert (w_data st) k v = Done d.
  Proof.
    intros (HG & [Hdok Hdi] & _ & _) Hp.
    destruct (bw_insert_spec (w_data st) (pes (L + 1)) k v Hdok) as [Hgood _].
    destruct Hgood as (d & E & _); [|exists d; exact E]. split.
    - destruct Hp as (rest & E). pose proof Hok as H. unfold entries_ok in H. rewrite Forall_forall in H.
      apply H. rewrite E. apply in_or_app. left. apply in_or_app. right. left. reflexivity.
    - pose proof (prefix_sorted _ Hp) as Hs. destruct HG as ((_ & _ & _ & (_ & HT2)) & _). rewrite <- HT2 in Hs.
      rewrite <- app_assoc, map_app in Hs. apply SS_app_inv in Hs. destruct Hs as (_ & Hs & _). exact (sorted_snoc_last _ _ _ Hs).
  Qed.

  Lemma prefix_shorter ins e : prefix_of_all (ins ++ [e]) -> prefix_of_all ins.
  Proof. intros (rest & E). exists (e :: rest). rewrite E, <- app_assoc. reflexivity. Qed.

  Theorem w_insert_prog st gl pes ins k v : WT compress c st gl pes ins -> prefix_of_all (ins ++ [(k, v)]) ->
    exists st', w_insert vsink vs_wr vs_count compress c st k v = Done st'.
  Proof.
    intros HW Hp. destruct (data_insert_ok st gl pes ins k v HW Hp) as (d & Ed).
    destruct HW as (HG & Hd & Hidx & Hln). unfold w_insert. rewrite Ed. cbn [bind].
    destruct Hd as [Hdok Hdi].
    destruct (bw_insert_ok (w_data st) _ k v d Hdok Ed) as [Hdok' Hdi'].
    set (pes0 := upd pes (L + 1) (pes (L + 1) ++ [(k, v)])).
    assert (HG0 : Gst compress c (w_sink st) (w_log st) gl pes0 (ins ++ [(k, v)])).
    { destruct HG as ((A & B & C & T) & Z). split; [|exact Z]. split; [exact A|]. split; [exact B|]. split; [exact C|]. apply TI_data_insert. exact T. }
    assert (Hd0 : bw_okI c d (pes0 (L + 1))) by (unfold pes0, upd; rewrite N.eqb_refl; split; [exact Hdok'|congruence]).
    assert (Hlen' : len (rev (w_idx st)) = L + 1) by (rewrite len_length, rev_length, <- len_length; exact Hln).
    assert (Hidx0 : uplink c pes0 (L + 1) (rev (w_idx st))).
    { apply (uplink_ext c pes pes0); [lia| |exact Hidx]. intros j Hj. unfold pes0, upd. destruct (N.eqb_spec j (L + 1)); [lia|reflexivity]. }
    destruct (wc_block_size c <=? bw_size d); [|eexists; reflexivity].
    destruct (bw_last d) as [last_k|] eqn:El; [|eexists; reflexivity].
    destruct (rev (w_idx st)) as [|deepest above] eqn:Er; [eexists; reflexivity|].
    cbn [uplink] in Hidx0. destruct Hidx0 as [Hdeep Habove]. 
    destruct (parent_insert_ok _ _ gl pes0 _ d deepest (L + 1) last_k (vs_count (w_sink st)) HG0 Hp ltac:(lia) Hd0 Hdeep El) as (deepest' & Ep & _).
    rewrite Ep. cbn [bind].
    destruct (cwb_ok _ _ gl pes0 _ d (L + 1) (L + 1) HG0 Hp ltac:(lia) Hd0) as (s1 & d' & e & Ec). rewrite Ec. cbn [bind].
    destruct (emit_step _ _ gl pes0 _ d deepest (L + 1) last_k deepest' s1 d' e HG0 ltac:(lia) Hd0 Hdeep El Ep Ec) as (HG1 & Hdeep1 & _ & Hsame).
    set (gl1 := gl ++ [(e, pes0 (L + 1))]) in *.
    set (pes1 := upd (upd pes0 (L + 1) []) (L + 1 - 1) (pes0 (L + 1 - 1) ++ [item_of (e, pes0 (L + 1))])) in *.
    replace (L + 1 - 1) with L in * by lia.
    rewrite len_cons in Hlen'.
    assert (Habove1 : uplink c pes1 L above).
    { apply (uplink_ext c pes0 pes1); [lia| |exact Habove]. intros k0 Hk0. apply Hsame; lia. }
    destruct (rev (deepest' :: above)) as [|root sl] eqn:Er2.
    { apply (f_equal (@length bw)) in Er2. rewrite rev_length in Er2. discriminate. }
    apply rev_cons_split' in Er2. destruct Er2 as [(Ea & Eroot & Esl)|(up & Ea & Esl)].
    - subst sl. cbn [rev]. eexists. reflexivity.
    - rewrite Esl. subst above. rewrite len_app, len_cons in Hlen'. change (len (@nil bw)) with 0 in Hlen'.
      apply uplink_app in Habove1. destruct Habove1 as [Hup _].
      destruct (cascade_prog up s1 (e :: w_log st) deepest' L gl1 pes1 _ ltac:(lia) ltac:(lia) HG1 Hp Hdeep1 Hup) as ([[s2 lg2] blocks] & Ecas).
      rewrite Ecas. cbn [bind]. eexists. reflexivity.
  Qed.

  Theorem w_inserts_at_prog : forall es st i gl pes ins, WT compress c st gl pes ins -> prefix_of_all (ins ++ es) ->
    exists st' gl' pes', w_inserts_at vsink vs_wr vs_count compress c st es i = (i + len es, Done st') /\
                         WT compress c st' gl' pes' (ins ++ es).
  Proof.
    induction es as [|[k v] es IH]; intros st i gl pes ins HW Hp; cbn [w_inserts_at].
    - exists st, gl, pes. change (len (@nil entry)) with 0. rewrite N.add_0_r, app_nil_r. auto.
    - assert (Hp1 : prefix_of_all (ins ++ [(k, v)])).
      { destruct Hp as (rest & E). exists (es ++ rest). rewrite E, <- !app_assoc. reflexivity. }
      destruct (w_insert_prog st gl pes ins k v HW Hp1) as (st1 & E1). rewrite E1.
      destruct (w_insert_tree compress decompress c codec_ok st k v st1 gl pes ins E1 HW) as (gl1 & pes1 & HW1).
      destruct (IH st1 (N.succ i) gl1 pes1 (ins ++ [(k, v)]) HW1 ltac:(rewrite <- app_assoc; exact Hp)) as (st' & gl' & pes' & E & HW').
      exists st', gl', pes'. rewrite <- app_assoc in HW'. split; [|exact HW']. rewrite E, len_cons. f_equal. lia.
  Qed.

  (* ---- the bottom-up flush of into_inner ---- *)
  Lemma flush_prog : forall up s lg cur lvl0 gl pes ins,
    lvl0 = len up -> lvl0 <= L -> Gst compress c s lg gl pes ins -> prefix_of_all ins ->
    bw_okI c cur (pes lvl0) -> uplink c pes lvl0 up ->
    exists r, flush_from vsink vs_wr vs_count compress c s lg cur lvl0 up = Done r.
  Proof.
    induction up as [|parent up IH]; intros s lg cur lvl0 gl pes ins Hlvl HL HG Hp Hcur Hup; cbn [flush_from].
    - destruct (cwb_ok s lg gl pes ins cur lvl0 lvl0 HG Hp ltac:(lia) Hcur) as (s1 & cur' & e & Ec).
      destruct (bw_last cur); rewrite Ec; cbn [bind]; eexists; reflexivity.
    - rewrite len_cons in Hlvl. cbn [uplink] in Hup. destruct Hup as [Hpar Hup'].
      destruct (bw_last cur) as [lk|] eqn:El.
      + destruct (parent_insert_ok s lg gl pes ins cur parent lvl0 lk (vs_count s) HG Hp ltac:(lia) Hcur Hpar El) as (parent' & Ep & _).
        rewrite Ep. cbn [bind].
        destruct (cwb_ok s lg gl pes ins cur lvl0 lvl0 HG Hp ltac:(lia) Hcur) as (s1 & cur' & e & Ec). rewrite Ec. cbn [bind].
        destruct (emit_step s lg gl pes ins cur parent lvl0 lk parent' s1 cur' e HG ltac:(lia) Hcur Hpar El Ep Ec) as (HG1 & Hpar1 & _ & Hsame).
        apply (IH s1 (e :: lg) parent' (lvl0 - 1) _ _ ins ltac:(lia) ltac:(lia) HG1 Hp Hpar1).
        apply (uplink_ext c pes _ up (lvl0 - 1)); [lia| |exact Hup']. intros k Hk. apply Hsame; lia.
      + apply (IH s lg parent (lvl0 - 1) gl pes ins ltac:(lia) ltac:(lia) HG Hp Hpar Hup').
  Qed.

  (* ---- Writer::into_inner ---- *)
  Theorem w_finish_prog st gl pes ins : WT compress c st gl pes ins -> prefix_of_all ins ->
    exists r, w_finish vsink vs_wr vs_fl vs_count compress c st = Done r.
  Proof.
    intros (HG & Hd & Hidx & Hln) Hp. unfold w_finish.
    assert (Hlen' : len (rev (w_idx st)) = L + 1) by (rewrite len_length, rev_length, <- len_length; exact Hln).
    (* step 1 and the state it leaves for the flush *)
    assert (Step1 : exists s1 lg1 idx1 gl1 pes1 cur up,
      (match bw_last (w_data st) with
       | Some last_key =>
         match rev (w_idx st) with
         | [] => Done (w_sink st, w_log st, w_idx st)
         | deepest :: above =>
           do deepest' <- bw_insert deepest last_key (be_bytes 8 (vs_count (w_sink st)));
           do r <- cwb vsink vs_wr vs_count compress c (w_sink st) (w_data st) (L + 1);
           let '(s1, _, e) := r in Done (s1, e :: w_log st, rev (deepest' :: above))
         end
       | None => Done (w_sink st, w_log st, w_idx st)
       end) = Done (s1, lg1, idx1) /\ rev idx1 = cur :: up /\ L = len up /\
      Gst compress c s1 lg1 gl1 pes1 ins /\ bw_okI c cur (pes1 L) /\ uplink c pes1 L up).
    { destruct (rev (w_idx st)) as [|deepest above] eqn:Er; [change (len (@nil bw)) with 0 in Hlen'; lia|].
      rewrite len_cons in Hlen'. cbn [uplink] in Hidx. destruct Hidx as [Hdeep Habove]. replace (L + 1 - 1) with L in * by lia.
      destruct (bw_last (w_data st)) as [last_k|] eqn:El.
      - destruct (parent_insert_ok _ _ gl pes ins (w_data st) deepest (L + 1) last_k (vs_count (w_sink st)) HG Hp ltac:(lia) Hd
                    ltac:(replace (L + 1 - 1) with L by lia; exact Hdeep) El) as (deepest' & Ep & _).
        rewrite Ep. cbn [bind].
        destruct (cwb_ok _ _ gl pes ins (w_data st) (L + 1) (L + 1) HG Hp ltac:(lia) Hd) as (s1 & d' & e & Ec). rewrite Ec. cbn [bind].
        destruct (emit_step _ _ gl pes ins (w_data st) deepest (L + 1) last_k deepest' s1 d' e HG ltac:(lia) Hd
                    ltac:(replace (L + 1 - 1) with L by lia; exact Hdeep) El Ep Ec) as (HG1 & Hdeep1 & _ & Hsame).
        replace (L + 1 - 1) with L in * by lia.
        eexists s1, _, _, _, _, deepest', above. split; [reflexivity|]. split; [apply rev_involutive|]. split; [lia|].
        split; [exact HG1|]. split; [exact Hdeep1|].
        apply (uplink_ext c pes _ above L); [lia| |exact Habove]. intros k Hk. apply Hsame; lia.
      - exists (w_sink st), (w_log st), (w_idx st), gl, pes, deepest, above. split; [reflexivity|]. split; [exact Er|]. split; [lia|]. auto. }
    destruct Step1 as (s1 & lg1 & idx1 & gl1 & pes1 & cur & up & E1 & Er1 & Hlup & HG1 & Hcur & Hup).
    rewrite E1. cbn [bind]. rewrite Er1.
    destruct (flush_prog up s1 lg1 cur L gl1 pes1 ins Hlup ltac:(lia) HG1 Hp Hcur Hup) as ([[s2 lg2] root_off] & Ef).
    rewrite Ef. cbn [bind]. unfold vs_wr, vs_fl. cbn [bind]. eexists. reflexivity.
  Qed.

  (* ================= the whole run ================= *)
  Theorem w_run_progress : wc_levels c < 256 ->
    exists s lg m, w_run_gen vsink vs_wr vs_fl vs_count compress c vs_empty all = (len all, Done (s, lg, m)).
  Proof.
    intro HL. unfold w_run_gen.
    destruct (w_inserts_at_prog all (w_new vsink c vs_empty) 0 [] (fun _ => []) [] (WT_init compress c HL) ltac:(exists []; cbn [app]; rewrite app_nil_r; reflexivity))
      as (st & gl & pes & E & HW).
    rewrite E. cbn [app] in HW.
    destruct (w_finish_prog st gl pes all HW ltac:(exists []; rewrite app_nil_r; reflexivity)) as ([[s lg] m] & Ef).
    rewrite Ef. exists s, lg, m. reflexivity.
  Qed.
End Progress.

(* C01 without the "run finishes" hypothesis *)
Theorem roundtrip_total compress decompress c :
  (forall b z, compress (wc_codec c) (wc_level c) b = Done z -> decompress (wc_codec c) z = Done b) ->
  (forall b, exists z, compress (wc_codec c) (wc_level c) b = Done z) ->
  forall es, wc_levels c < 256 -> 1 <= wc_interval c -> wc_codec c <= 5 ->
  es <> [] -> sorted_strictb (map fst es) = true -> entries_ok es -> len es + 1 <= U32_MAX ->
  exists s lg m,
    w_run_gen vsink vs_wr vs_fl vs_count compress c vs_empty es = (len es, Done (s, lg, m)) /\
    (len (vs_bytes s) < 2^64 -> mem_ok lg ->
     open_meta (vs_bytes s) = Done m /\ m_count m = len es /\ m_codec m = wc_codec c /\
     let ld := load_block decompress (vs_bytes s) (m_codec m) in
     (exists st rs, run_ops ld (m_root m) (m_levels m) cs_fresh (repeat ONext (S (length es))) = Done (st, rs) /\
                    rs = map Some es ++ [None]) /\
     (exists st rs, run_ops ld (m_root m) (m_levels m) cs_fresh (repeat OPrev (S (length es))) = Done (st, rs) /\
                    rs = map Some (rev es) ++ [None])).
Proof.
  intros Hcodec Htotal es HL Hint Hk Hne Hsorted Hok Hlen.
  destruct (w_run_progress compress decompress c Hcodec Htotal es (proj1 (sorted_strictb_SS _) Hsorted) Hok Hlen HL) as (s & lg & m & Hrun).
  exists s, lg, m. split; [exact Hrun|]. intros H64 Hmem.
  apply (written_file_roundtrip compress decompress c Hcodec es (len es) s lg m HL Hint Hk Hrun Hne Hsorted H64 Hmem).
  change U32_MAX with 4294967295 in Hlen. lia.
Qed.
