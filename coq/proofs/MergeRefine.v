(* C06: the heap-based merger (model/Merger.v, transcription of merger.rs) refines an abstract k-way
   merge over the remaining sources kept in index order, and the abstract merge makes exactly one
   merge-function call per distinct key, in ascending key order, on that key's values in source
   order. *)
From Coq Require Import Lia ZArith ZifyN ZifyBool ZifyNat Sorted Sorting.Permutation.
From Grenad.model Require Import Base Reader Spec Merger.
From Grenad.proofs Require Import BaseProofs SortedFacts MergerProofs.
Ltac Zify.zify_post_hook ::= Z.div_mod_to_equations.

(* ================= part A: the abstract merge ================= *)
Definition src := list entry.
Definition head_key (s : src) : option bytes := match s with (k, _) :: _ => Some k | [] => None end.
Definition bmin (a b : bytes) : bytes := if bytes_ltb b a then b else a.

Fixpoint min_key (ss : list src) : option bytes :=
  match ss with
  | [] => None
  | s :: r => match head_key s, min_key r with
              | Some k, Some m => Some (bmin k m)
              | Some k, None => Some k
              | None, m => m
              end
  end.

Definition takes (k : bytes) (s : src) : list bytes :=
  match s with (k', v) :: _ => if bytes_eqb k k' then [v] else [] | [] => [] end.
Definition adv (k : bytes) (s : src) : src :=
  match s with (k', _) :: r => if bytes_eqb k k' then r else s | [] => [] end.

(* the sequence of merge-function calls: (key, values), independent of the merge function *)
Fixpoint acalls (fuel : nat) (ss : list src) : list (bytes * list bytes) :=
  match fuel with
  | O => []
  | S f => match min_key ss with
           | None => []
           | Some k => (k, flat_map (takes k) ss) :: acalls f (map (adv k) ss)
           end
  end.

(* applying the merge function to a call sequence, numbering the calls from [calls] *)
Fixpoint run_calls (mf : mergefn) (calls : N) (cs : list (bytes * list bytes)) : outcome (list entry * N) :=
  match cs with
  | [] => Done ([], calls)
  | (k, vs) :: r =>
    do v <- mf calls k vs;
    do rest <- run_calls mf (calls + 1) r;
    Done ((k, v) :: fst rest, snd rest)
  end.

(* ---- specification vocabulary ---- *)
Definition keys (s : src) : list bytes := map fst s.
Definition ssorted (s : src) : Prop := StronglySorted blt (keys s).
Definition val_in (k : bytes) (s : src) : list bytes :=
  flat_map (fun kv => if bytes_eqb k (fst kv) then [snd kv] else []) s.
Definition vals_of (k : bytes) (ss : list src) : list bytes := flat_map (val_in k) ss.
Definition has_key (k : bytes) (ss : list src) : Prop := exists s, In s ss /\ In k (keys s).
Definition ble (a b : bytes) : Prop := bytes_leb a b = true.

Lemma eqb_refl a : bytes_eqb a a = true. Proof. apply bytes_eqb_eq. reflexivity. Qed.
Lemma eqb_false_lt a b : blt a b -> bytes_eqb a b = false.
Proof.
  unfold blt. intro H. destruct (bytes_eqb a b) eqn:E; [|reflexivity]. apply bytes_eqb_eq in E. subst. rewrite bytes_ltb_irrefl in H. discriminate.
Qed.
Lemma ble_refl a : ble a a. Proof. unfold ble. rewrite bytes_leb_ltb, bytes_ltb_irrefl. reflexivity. Qed.
Lemma blt_ble a b : blt a b -> ble a b.
Proof.
  unfold blt, ble. intro H. rewrite bytes_leb_ltb. destruct (bytes_ltb b a) eqn:E; [|reflexivity].
  pose proof (bytes_ltb_trans _ _ _ H E) as T. rewrite bytes_ltb_irrefl in T. discriminate.
Qed.
Lemma ble_cases a b : ble a b -> a = b \/ blt a b.
Proof.
  unfold ble, blt. rewrite bytes_leb_ltb. intro H. destruct (bytes_total a b) as [H1|[H1|H1]]; auto. rewrite H1 in H. discriminate.
Qed.
Lemma ble_trans a b c : ble a b -> ble b c -> ble a c.
Proof.
  intros H1 H2. destruct (ble_cases _ _ H1) as [->|H1']; [exact H2|]. destruct (ble_cases _ _ H2) as [<-|H2']; [exact H1|].
  apply blt_ble. exact (bytes_ltb_trans _ _ _ H1' H2').
Qed.
Lemma ble_blt_trans a b c : ble a b -> blt b c -> blt a c.
Proof. intros H1 H2. destruct (ble_cases _ _ H1) as [->|H1']; [exact H2|]. exact (bytes_ltb_trans _ _ _ H1' H2). Qed.
Lemma not_blt_ble a b : bytes_ltb a b = false -> ble b a.
Proof. unfold ble. rewrite bytes_leb_ltb. intros ->. reflexivity. Qed.
Lemma bmin_le_l a b : ble (bmin a b) a.
Proof. unfold bmin. destruct (bytes_ltb b a) eqn:E; [apply blt_ble; exact E|apply ble_refl]. Qed.
Lemma bmin_le_r a b : ble (bmin a b) b.
Proof. unfold bmin. destruct (bytes_ltb b a) eqn:E; [apply ble_refl|apply not_blt_ble; exact E]. Qed.
Lemma bmin_cases a b : bmin a b = a \/ bmin a b = b.
Proof. unfold bmin. destruct (bytes_ltb b a); auto. Qed.
Lemma ble_antisym a b : ble a b -> ble b a -> a = b.
Proof.
  intros H1 H2. destruct (ble_cases _ _ H1) as [E|H]; [exact E|]. destruct (ble_cases _ _ H2) as [E|H']; [symmetry; exact E|].
  pose proof (bytes_ltb_trans _ _ _ H H') as T. rewrite bytes_ltb_irrefl in T. discriminate.
Qed.

(* ---- one sorted source ---- *)
Lemma ssorted_tail k v r : ssorted ((k, v) :: r) -> ssorted r /\ Forall (fun x => blt k x) (keys r).
Proof. unfold ssorted, keys. cbn [map fst]. intro H. inversion H; subst. auto. Qed.

Lemma val_in_above k s : Forall (fun x => blt k x) (keys s) -> val_in k s = [].
Proof.
  unfold val_in. induction s as [|[k' v] r IH]; intro Hf; [reflexivity|].
  cbn [flat_map fst snd keys map] in *. inversion Hf as [|? ? Hk Hr]; subst. rewrite (eqb_false_lt _ _ Hk). cbn [app]. apply IH. exact Hr.
Qed.

Lemma val_in_head k v r : ssorted ((k, v) :: r) -> val_in k ((k, v) :: r) = [v].
Proof.
  intro H. apply ssorted_tail in H. destruct H as [_ Hf]. unfold val_in. cbn [flat_map fst snd]. rewrite eqb_refl.
  change (flat_map _ r) with (val_in k r). rewrite (val_in_above k r Hf). reflexivity.
Qed.

(* ---- the minimum head key ---- *)
Lemma min_key_le ss m : min_key ss = Some m -> forall s k, In s ss -> head_key s = Some k -> ble m k.
Proof.
  revert m; induction ss as [|s0 r IH]; intros m Hm s k Hin Hk; [destruct Hin|].
  cbn [min_key] in Hm. destruct Hin as [<-|Hin].
  - rewrite Hk in Hm. destruct (min_key r) as [m'|]; injection Hm as <-; [apply bmin_le_l|apply ble_refl].
  - destruct (head_key s0) as [k0|]; destruct (min_key r) as [m'|] eqn:Er; try discriminate.
    + injection Hm as <-. eapply ble_trans; [apply bmin_le_r|]. eapply IH; eauto.
    + exfalso. clear -Er Hin Hk. revert Er. induction r as [|s1 r IHr]; [destruct Hin|]. cbn [min_key].
      destruct Hin as [<-|Hin]; [rewrite Hk; destruct (min_key r); discriminate|].
      destruct (head_key s1); destruct (min_key r) eqn:E2; try discriminate. intros _. apply IHr; auto.
    + injection Hm as <-. eapply IH; eauto.
Qed.

Lemma min_key_in ss m : min_key ss = Some m -> exists s, In s ss /\ head_key s = Some m.
Proof.
  revert m; induction ss as [|s0 r IH]; intros m Hm; [discriminate|].
  cbn [min_key] in Hm. destruct (head_key s0) as [k0|] eqn:E0; destruct (min_key r) as [m'|] eqn:Er.
  - injection Hm as <-. destruct (bmin_cases k0 m') as [-> | ->].
    + exists s0. split; [left; reflexivity|exact E0].
    + destruct (IH m' eq_refl) as (s & Hin & Hk). exists s. split; [right; exact Hin|exact Hk].
  - injection Hm as <-. exists s0. split; [left; reflexivity|exact E0].
  - injection Hm as <-. destruct (IH m' eq_refl) as (s & Hin & Hk). exists s. split; [right; exact Hin|exact Hk].
  - discriminate.
Qed.

Lemma min_key_none ss : min_key ss = None -> Forall (fun s => s = []) ss.
Proof.
  induction ss as [|s r IH]; intro H; [constructor|]. cbn [min_key] in H.
  destruct s as [|[k v] s']; cbn [head_key] in H.
  - constructor; [reflexivity|apply IH; exact H].
  - destruct (min_key r); discriminate.
Qed.

Definition lowb (m : bytes) (ss : list src) : Prop :=
  forall s, In s ss -> ssorted s /\ (forall k, head_key s = Some k -> ble m k).

Lemma takes_val_in m s : ssorted s -> (forall k, head_key s = Some k -> ble m k) -> takes m s = val_in m s.
Proof.
  intros Hs Hlow. destruct s as [|[k v] r]; [reflexivity|]. cbn [takes].
  specialize (Hlow k eq_refl). destruct (ble_cases _ _ Hlow) as [->|Hlt].
  - rewrite eqb_refl. symmetry. apply val_in_head. exact Hs.
  - rewrite (eqb_false_lt _ _ Hlt). symmetry. apply val_in_above. cbn [keys map fst].
    apply ssorted_tail in Hs. destruct Hs as [_ Hf]. constructor; [exact Hlt|].
    eapply Forall_impl; [|exact Hf]. cbn beta. intros a Ha. exact (bytes_ltb_trans _ _ _ Hlt Ha).
Qed.

Lemma adv_spec m s : ssorted s -> (forall k, head_key s = Some k -> ble m k) ->
  ssorted (adv m s) /\
  (forall k, head_key (adv m s) = Some k -> blt m k) /\
  (forall k, blt m k -> val_in k (adv m s) = val_in k s) /\
  (forall k, In k (keys s) <-> (k = m /\ head_key s = Some m) \/ In k (keys (adv m s))) /\
  (length (adv m s) <= length s)%nat /\ (head_key s = Some m -> length (adv m s) < length s)%nat.
Proof.
  intros Hs Hlow. destruct s as [|[k0 v0] r].
  - cbn [adv head_key keys map length]. repeat split; auto; try (intros; discriminate); try tauto.
    intros [[_ H]|H]; [discriminate|exact H].
  - specialize (Hlow k0 eq_refl). cbn [adv]. pose proof (ssorted_tail _ _ _ Hs) as [Hr Hf].
    destruct (ble_cases _ _ Hlow) as [->|Hlt].
    + rewrite eqb_refl. split; [exact Hr|]. split.
      { intros k Hk. destruct r as [|[k1 v1] r']; [discriminate|]. cbn [head_key] in Hk. injection Hk as <-.
        cbn [keys map fst] in Hf. inversion Hf; subst. assumption. }
      split.
      { intros k Hk. unfold val_in at 2. cbn [flat_map fst snd].
        assert (E : bytes_eqb k k0 = false).
        { destruct (bytes_eqb k k0) eqn:E; [|reflexivity]. apply bytes_eqb_eq in E. subst. unfold blt in Hk. rewrite bytes_ltb_irrefl in Hk. discriminate. }
        rewrite E. reflexivity. }
      split.
      { intro k. cbn [keys map fst head_key]. split.
        - intros [<-|H]; [left; auto|right; exact H].
        - intros [[-> _]|H]; [left; reflexivity|right; exact H]. }
      cbn [length]. split; [lia|intros _; lia].
    + rewrite (eqb_false_lt _ _ Hlt). split; [exact Hs|]. split.
      { intros k Hk. cbn [head_key] in Hk. injection Hk as <-. exact Hlt. }
      split; [reflexivity|]. split.
      { intro k. cbn [head_key]. split; [intro H; right; exact H|].
        intros [[-> H]|H]; [|exact H]. injection H as ->. unfold blt in Hlt. rewrite bytes_ltb_irrefl in Hlt. discriminate. }
      split; [lia|]. cbn [head_key]. intro H. injection H as ->. unfold blt in Hlt. rewrite bytes_ltb_irrefl in Hlt. discriminate.
Qed.

Lemma total_len_cons s r : total_len (s :: r) = (length s + total_len r)%nat. Proof. reflexivity. Qed.

Lemma total_adv_le m ss : lowb m ss -> (total_len (map (adv m) ss) <= total_len ss)%nat.
Proof.
  induction ss as [|s r IH]; intro H; [cbn; lia|]. cbn [map]. rewrite !total_len_cons.
  destruct (H s (or_introl eq_refl)) as [A B]. pose proof (adv_spec m s A B) as (_ & _ & _ & _ & L & _).
  assert (lowb m r) by (intros x Hx; apply H; right; exact Hx). specialize (IH H0). lia.
Qed.

Lemma total_adv_lt m ss s0 : lowb m ss -> In s0 ss -> head_key s0 = Some m -> (total_len (map (adv m) ss) < total_len ss)%nat.
Proof.
  induction ss as [|s r IH]; intros H Hin Hk; [destruct Hin|]. cbn [map]. rewrite !total_len_cons.
  destruct (H s (or_introl eq_refl)) as [A B]. pose proof (adv_spec m s A B) as (_ & _ & _ & _ & L & L2).
  assert (Hr : lowb m r) by (intros x Hx; apply H; right; exact Hx).
  destruct Hin as [->|Hin].
  - specialize (L2 Hk). pose proof (total_adv_le m r Hr). lia.
  - specialize (IH Hr Hin Hk). lia.
Qed.

Lemma takes_flat m ss : lowb m ss -> flat_map (takes m) ss = vals_of m ss.
Proof.
  unfold vals_of. induction ss as [|s r IH]; intro H; [reflexivity|]. cbn [flat_map].
  destruct (H s (or_introl eq_refl)) as [A B]. rewrite (takes_val_in m s A B). f_equal.
  apply IH. intros x Hx; apply H; right; exact Hx.
Qed.

(* ---- the call sequence of the abstract merge ---- *)
Theorem acalls_spec fuel : forall ss, Forall ssorted ss -> (total_len ss < fuel)%nat ->
  let cs := acalls fuel ss in
  StronglySorted blt (map fst cs) /\
  (forall k, In k (map fst cs) <-> has_key k ss) /\
  (forall k vs, In (k, vs) cs -> vs = vals_of k ss) /\
  (forall lo, (forall s k, In s ss -> head_key s = Some k -> ble lo k) -> Forall (fun x => ble lo x) (map fst cs)).
Proof.
  induction fuel as [|f IH]; intros ss Hs Hf; [lia|].
  cbn [acalls]. destruct (min_key ss) as [m|] eqn:Em.
  2:{ pose proof (min_key_none _ Em) as Hn. cbn [map]. split; [constructor|]. split.
      - intro k. split; [intros []|]. intros (s & Hin & Hk). rewrite Forall_forall in Hn. rewrite (Hn _ Hin) in Hk. exact Hk.
      - split; [intros k vs []|]. intros; constructor. }
  pose proof (min_key_le _ _ Em) as Hle. pose proof (min_key_in _ _ Em) as (s0 & Hin0 & Hh0).
  assert (Hall : lowb m ss).
  { intros s Hin. split; [rewrite Forall_forall in Hs; auto | intros; eapply Hle; eauto]. }
  set (ss' := map (adv m) ss).
  assert (Hs' : Forall ssorted ss').
  { apply Forall_forall. intros s Hin. apply in_map_iff in Hin. destruct Hin as (s1 & <- & Hin1).
    destruct (Hall _ Hin1) as [A B]. apply adv_spec; assumption. }
  assert (Htot : (total_len ss' < f)%nat).
  { pose proof (total_adv_lt m ss s0 Hall Hin0 Hh0). subst ss'. lia. }
  specialize (IH ss' Hs' Htot). cbv zeta in IH. destruct IH as (I1 & I2 & I3 & I4).
  assert (Hlow' : forall s k, In s ss' -> head_key s = Some k -> blt m k).
  { intros s k Hin Hk. apply in_map_iff in Hin. destruct Hin as (s1 & <- & Hin1).
    destruct (Hall _ Hin1) as [A B]. pose proof (adv_spec m s1 A B) as (_ & P & _). exact (P _ Hk). }
  assert (Hgt : Forall (fun x => blt m x) (map fst (acalls f ss'))).
  { (* every later key is a key of ss', hence above m *)
    apply Forall_forall. intros k Hk. apply I2 in Hk. destruct Hk as (s & Hin & Hks).
    apply in_map_iff in Hin. destruct Hin as (s1 & <- & Hin1). destruct (Hall _ Hin1) as [A B].
    pose proof (adv_spec m s1 A B) as (A' & P & _).
    destruct (adv m s1) as [|[k1 v1] r1] eqn:Ea; [destruct Hks|]. specialize (P k1 eq_refl).
    cbn [keys map fst] in Hks. destruct Hks as [<-|Hks]; [exact P|].
    apply ssorted_tail in A'. destruct A' as [_ Hf']. rewrite Forall_forall in Hf'. exact (bytes_ltb_trans _ _ _ P (Hf' k Hks)). }
  assert (Hvals : forall k, blt m k -> vals_of k ss' = vals_of k ss).
  { intros k Hk. unfold vals_of, ss'. rewrite flat_map_concat_map, map_map, <- flat_map_concat_map.
    clear -Hall Hk. induction ss as [|s r IHr]; [reflexivity|]. cbn [flat_map].
    destruct (Hall s (or_introl eq_refl)) as [A B]. pose proof (adv_spec m s A B) as (_ & _ & P & _).
    rewrite (P k Hk). f_equal. apply IHr. intros x Hx; apply Hall; right; exact Hx. }
  assert (Hkeys : forall k, has_key k ss <-> k = m \/ has_key k ss').
  { intro k. split.
    - intros (s & Hin & Hk). destruct (Hall _ Hin) as [A B]. pose proof (adv_spec m s A B) as (_ & _ & _ & P & _).
      apply P in Hk. destruct Hk as [[-> _]|Hk]; [left; reflexivity|]. right. exists (adv m s). split; [apply in_map; exact Hin|exact Hk].
    - intros [->|(s & Hin & Hk)].
      + exists s0. split; [exact Hin0|]. destruct s0 as [|[k0 v0] r0]; [discriminate|]. cbn [head_key] in Hh0. injection Hh0 as ->. left. reflexivity.
      + apply in_map_iff in Hin. destruct Hin as (s1 & <- & Hin1). destruct (Hall _ Hin1) as [A B].
        pose proof (adv_spec m s1 A B) as (_ & _ & _ & P & _). exists s1. split; [exact Hin1|]. apply P. right; exact Hk. }
  cbn [map fst]. split; [constructor; [exact I1|exact Hgt]|]. split.
  { intro k. split.
    - intros [<-|H]; apply Hkeys; [left; reflexivity | right; apply I2; exact H].
    - intro H. apply Hkeys in H. destruct H as [->|H]; [left; reflexivity | right; apply I2; exact H]. }
  split.
  { intros k vs [E|Hin].
    - injection E as <- <-. apply takes_flat. exact Hall.
    - rewrite (I3 k vs Hin). apply Hvals.
      rewrite Forall_forall in Hgt. apply Hgt. apply in_map_iff. exists (k, vs). auto. }
  intros lo Hlo. constructor.
  - eapply Hlo; eauto.
  - eapply Forall_impl; [|exact Hgt]. cbn beta. intros a Ha. apply blt_ble. exact (ble_blt_trans _ _ _ (Hlo _ _ Hin0 Hh0) Ha).
Qed.

(* ================= part B: the heap model refines the abstract merge ================= *)
Definition nonempty (h : hentry) : bool := match he_rest h with [] => false | _ => true end.
Definition hkey_is (k : bytes) (h : hentry) : bool :=
  match he_key h with Some k' => bytes_eqb k k' | None => false end.
Definition advE (k : bytes) (h : hentry) : hentry := if hkey_is k h then advance h else h.
Definition HInv (hs : list hentry) : Prop := StronglySorted N.lt (map he_idx hs).
Definition live (hs : list hentry) : list hentry := filter nonempty hs.

Lemma he_key_head h : he_key h = head_key (he_rest h).
Proof. unfold he_key, head_key. destruct (he_rest h) as [|[k v] r]; reflexivity. Qed.

Lemma ltb_lex a b : bytes_ltb a b = true <-> lex_compare a b = Lt.
Proof. unfold bytes_ltb. destruct (lex_compare a b); split; intro H; try reflexivity; discriminate. Qed.

Lemma he_lt_some a b ka kb : he_key a = Some ka -> he_key b = Some kb ->
  he_lt a b = bytes_ltb ka kb || (bytes_eqb ka kb && (he_idx a <? he_idx b)).
Proof.
  intros Ha Hb. unfold he_lt, bytes_ltb, bytes_eqb. rewrite Ha, Hb. destruct (lex_compare ka kb); reflexivity.
Qed.

Lemma he_lt_trans a b c : he_lt a b = true -> he_lt b c = true -> he_lt a c = true.
Proof.
  unfold he_lt. destruct (he_key a) as [ka|], (he_key b) as [kb|], (he_key c) as [kc|]; try discriminate; try reflexivity.
  - destruct (lex_compare ka kb) eqn:E1; try discriminate; destruct (lex_compare kb kc) eqn:E2; try discriminate; intros H1 H2.
    + apply lex_compare_eq in E1, E2. subst. rewrite lex_compare_refl. lia.
    + apply lex_compare_eq in E1. subst. rewrite E2. reflexivity.
    + apply lex_compare_eq in E2. subst. rewrite E1. reflexivity.
    + rewrite (lex_compare_trans_lt _ _ _ E1 E2). reflexivity.
  - lia.
Qed.

Lemma he_lt_irrefl a : he_lt a a = false.
Proof. unfold he_lt. destruct (he_key a); [rewrite lex_compare_refl|]; lia. Qed.

Lemma pop_min_aux_least l : forall best seen m rest,
  pop_min_aux best seen l = (m, rest) ->
  (forall x, In x seen -> he_lt x best = false) ->
  forall x, In x (best :: seen ++ l) -> he_lt x m = false \/ x = m.
Proof.
  induction l as [|y l IH]; intros best seen m rest H Hseen x Hx; cbn [pop_min_aux] in H.
  - injection H as <- <-. rewrite app_nil_r in Hx. destruct Hx as [<-|Hx]; [right; reflexivity|left; apply Hseen; exact Hx].
  - destruct (he_lt y best) eqn:E.
    + apply (IH y (best :: seen) m rest H).
      * intros z [<-|Hz].
        -- destruct (he_lt best y) eqn:E2; [|reflexivity]. pose proof (he_lt_trans _ _ _ E2 E) as T.
           rewrite he_lt_irrefl in T. discriminate.
        -- destruct (he_lt z y) eqn:E2; [|reflexivity]. pose proof (he_lt_trans _ _ _ E2 E) as T. rewrite (Hseen z Hz) in T. discriminate.
      * cbn [app]. destruct Hx as [<-|Hx]; [right; left; reflexivity|].
        apply in_app_or in Hx. destruct Hx as [Hx|[<-|Hx]]; [right; right; apply in_or_app; left; exact Hx|left; reflexivity|].
        right; right. apply in_or_app. right. exact Hx.
    + apply (IH best (y :: seen) m rest H).
      * intros z [<-|Hz]; [exact E|apply Hseen; exact Hz].
      * cbn [app]. destruct Hx as [<-|Hx]; [left; reflexivity|].
        apply in_app_or in Hx. destruct Hx as [Hx|[<-|Hx]]; [right; right; apply in_or_app; left; exact Hx|right; left; reflexivity|].
        right; right. apply in_or_app. right. exact Hx.
Qed.

Lemma pop_min_least l m rest : pop_min l = Some (m, rest) -> forall x, In x l -> he_lt x m = false \/ x = m.
Proof.
  destruct l as [|h r]; cbn [pop_min]; [discriminate|]. intro H. injection H as H.
  intros x Hx. apply (pop_min_aux_least r h [] m rest H); [intros z []|exact Hx].
Qed.

(* popping the group of the least key, in index order *)
Lemma pop_group fk Rst : (forall r, In r Rst -> exists k, he_key r = Some k /\ blt fk k) ->
  forall gs heap, Permutation heap (gs ++ Rst) -> StronglySorted N.lt (map he_idx gs) ->
  (forall g, In g gs -> he_key g = Some fk) ->
  match gs with
  | [] => True
  | g :: gs' => exists heap', pop_min heap = Some (g, heap') /\ Permutation heap' (gs' ++ Rst)
  end.
Proof.
  intros HR gs heap Hp Hs Hk. destruct gs as [|g gs']; [exact I|].
  destruct (pop_min heap) as [[h heap']|] eqn:E.
  2:{ apply pop_min_none in E. subst heap. apply Permutation_nil in Hp. discriminate. }
  pose proof (pop_min_perm _ _ _ E) as Hperm. pose proof (pop_min_least _ _ _ E) as Hleast.
  assert (Hg : In g heap) by (eapply Permutation_in; [apply Permutation_sym; exact Hp|left; reflexivity]).
  assert (Hh : In h ((g :: gs') ++ Rst)) by (eapply Permutation_in; [exact Hp|]; eapply Permutation_in; [exact Hperm|left; reflexivity]).
  assert (Kg : he_key g = Some fk) by (apply Hk; left; reflexivity).
  assert (h = g).
  { destruct (Hleast g Hg) as [Hlt|Heq]; [|symmetry; exact Heq].
    cbn [app] in Hh. destruct Hh as [Hh|Hh]; [symmetry; exact Hh|]. exfalso.
    apply in_app_or in Hh. destruct Hh as [Hh|Hh].
    - rewrite (he_lt_some g h fk fk Kg (Hk h (or_intror Hh))) in Hlt. rewrite eqb_refl, bytes_ltb_irrefl in Hlt. cbn [orb andb] in Hlt.
      cbn [map] in Hs. inversion Hs as [|? ? _ Hf]; subst. rewrite Forall_forall in Hf.
      specialize (Hf (he_idx h) (in_map he_idx _ _ Hh)). lia.
    - destruct (HR h Hh) as (k & Kh & Hlt'). rewrite (he_lt_some g h fk k Kg Kh) in Hlt. unfold blt in Hlt'. rewrite Hlt' in Hlt. discriminate. }
  subst h. exists heap'. split; [reflexivity|]. eapply Permutation_cons_inv. rewrite Hperm. exact Hp.
Qed.

Lemma pop_equal_spec fk Rst : (forall r, In r Rst -> exists k, he_key r = Some k /\ blt fk k) ->
  forall gs acc heap fuel, Permutation heap (gs ++ Rst) -> StronglySorted N.lt (map he_idx gs) ->
  (forall g, In g gs -> he_key g = Some fk) -> (length heap <= fuel)%nat ->
  exists heap2, pop_equal fuel fk heap acc = (rev acc ++ gs, heap2) /\ Permutation heap2 Rst.
Proof.
  intros HR. induction gs as [|g gs' IH]; intros acc heap fuel Hp Hs Hk Hf.
  - cbn [app] in Hp. rewrite app_nil_r. destruct fuel as [|f]; cbn [pop_equal]; [exists heap; auto|].
    destruct (pop_min heap) as [[h heap']|] eqn:E; [|exists heap; auto].
    assert (Hh : In h Rst).
    { eapply Permutation_in; [exact Hp|]. eapply Permutation_in; [exact (pop_min_perm _ _ _ E)|left; reflexivity]. }
    destruct (HR h Hh) as (k & Kh & Hlt). rewrite Kh, (eqb_false_lt _ _ Hlt). exists heap. auto.
  - destruct (pop_group fk Rst HR (g :: gs') heap Hp Hs Hk) as (heap' & E & Hp').
    assert (Hlen : length heap = S (length heap')).
    { pose proof (Permutation_length (pop_min_perm _ _ _ E)) as L. cbn [length] in L. lia. }
    destruct fuel as [|f]; [lia|]. cbn [pop_equal]. rewrite E.
    rewrite (Hk g (or_introl eq_refl)), eqb_refl.
    cbn [map] in Hs. inversion Hs as [|? ? Hs' _]; subst.
    destruct (IH (g :: acc) heap' f Hp' Hs' ltac:(intros x Hx; apply Hk; right; exact Hx) ltac:(lia)) as (heap2 & E2 & P2).
    exists heap2. split; [|exact P2]. rewrite E2. cbn [rev]. rewrite <- app_assoc. reflexivity.
Qed.

(* partition of the live entries by the least key *)
Definition grp (fk : bytes) (hs : list hentry) : list hentry := filter (hkey_is fk) hs.
Definition others (fk : bytes) (hs : list hentry) : list hentry := filter (fun h => nonempty h && negb (hkey_is fk h)) hs.

Lemma hkey_nonempty fk h : hkey_is fk h = true -> nonempty h = true.
Proof. unfold hkey_is, he_key, nonempty. destruct (he_rest h) as [|[k v] r]; [discriminate|reflexivity]. Qed.

Lemma live_partition fk hs : Permutation (live hs) (grp fk hs ++ others fk hs).
Proof.
  unfold live, grp, others. induction hs as [|h hs IH]; [reflexivity|]. cbn [filter].
  destruct (hkey_is fk h) eqn:Ek.
  - rewrite (hkey_nonempty fk h Ek). cbn [andb negb app]. apply perm_skip. exact IH.
  - destruct (nonempty h); cbn [andb negb]; [|exact IH].
    rewrite IH. apply Permutation_middle.
Qed.

Lemma filter_idx_sorted (f : hentry -> bool) hs : HInv hs -> StronglySorted N.lt (map he_idx (filter f hs)).
Proof.
  unfold HInv. induction hs as [|h hs IH]; intro H; [constructor|]. cbn [map] in H. inversion H as [|? ? Hs Hf]; subst.
  cbn [filter]. destruct (f h); [|apply IH; exact Hs]. cbn [map]. constructor; [apply IH; exact Hs|].
  rewrite Forall_forall in *. intros x Hx. apply in_map_iff in Hx. destruct Hx as (y & <- & Hy). apply filter_In in Hy.
  apply Hf. apply in_map. tauto.
Qed.

Definition hval (h : hentry) : list bytes := match he_val h with Some v => [v] | None => [] end.

Lemma takes_grp fk hs : flat_map (takes fk) (map he_rest hs) = flat_map hval (grp fk hs).
Proof.
  unfold grp. induction hs as [|h hs IH]; [reflexivity|]. cbn [map flat_map filter]. rewrite IH.
  unfold takes, hkey_is, he_key. destruct (he_rest h) as [|[k v] r] eqn:E; [reflexivity|].
  destruct (bytes_eqb fk k); [|reflexivity]. cbn [flat_map]. unfold hval at 2, he_val. rewrite E. reflexivity.
Qed.

Lemma push_back_perm : forall l heap, Permutation (push_back l heap) (live (map advance l) ++ heap).
Proof.
  induction l as [|h l IH]; intro heap; [reflexivity|]. cbn [push_back map]. unfold live. cbn [filter]. fold (live (map advance l)).
  unfold nonempty. destruct (he_rest (advance h)) as [|e r] eqn:E.
  - apply IH.
  - rewrite IH. cbn [app]. symmetry. apply Permutation_middle.
Qed.

Lemma live_advE fk hs : Permutation (live (map (advE fk) hs)) (live (map advance (grp fk hs)) ++ others fk hs).
Proof.
  unfold live, grp, others. induction hs as [|h hs IH]; [reflexivity|]. cbn [map filter].
  destruct (hkey_is fk h) eqn:Ek.
  - assert (Ea : advE fk h = advance h) by (unfold advE; rewrite Ek; reflexivity). rewrite Ea. cbn [andb negb map filter].
    rewrite Bool.andb_false_r. destruct (nonempty (advance h)); cbn [app]; [apply perm_skip|]; exact IH.
  - assert (Ea : advE fk h = h) by (unfold advE; rewrite Ek; reflexivity). rewrite Ea. cbn [negb]. rewrite Bool.andb_true_r.
    destruct (nonempty h); [|exact IH]. rewrite IH. apply Permutation_middle.
Qed.

Lemma rest_advE fk h : he_rest (advE fk h) = adv fk (he_rest h).
Proof.
  unfold advE, hkey_is, he_key, adv, advance. destruct (he_rest h) as [|[k v] r] eqn:E; cbn [he_rest]; [rewrite E; reflexivity|].
  destruct (bytes_eqb fk k); cbn [he_rest]; rewrite ?E; reflexivity.
Qed.

Lemma idx_advE fk h : he_idx (advE fk h) = he_idx h.
Proof. unfold advE, advance. destruct (hkey_is fk h); reflexivity. Qed.

Lemma HInv_advE fk hs : HInv hs -> HInv (map (advE fk) hs).
Proof. unfold HInv. rewrite map_map. erewrite map_ext; [intro H; exact H|]. intro h. cbn beta. symmetry. apply idx_advE. Qed.

(* one call of MergerIter::next *)
Lemma merge_next_refines mf st hs : HInv hs -> Permutation (ms_heap st) (live hs) ->
  match min_key (map he_rest hs) with
  | None => merge_next mf st = Done (st, None)
  | Some fk => exists heap', Permutation heap' (live (map (advE fk) hs)) /\
      merge_next mf st = (do merged <- mf (ms_calls st) fk (flat_map (takes fk) (map he_rest hs));
                          Done (mk_mstate heap' (ms_calls st + 1), Some (fk, merged)))
  end.
Proof.
  intros Hinv Hp. destruct (min_key (map he_rest hs)) as [fk|] eqn:Em.
  - pose proof (min_key_le _ _ Em) as Hle. destruct (min_key_in _ _ Em) as (s0 & Hin0 & Hk0).
    (* the group of the least key is not empty *)
    apply in_map_iff in Hin0. destruct Hin0 as (h0 & <- & Hh0).
    assert (Hg0 : In h0 (grp fk hs)).
    { unfold grp. apply filter_In. split; [exact Hh0|]. unfold hkey_is. rewrite he_key_head, Hk0. apply eqb_refl. }
    assert (HR : forall r, In r (others fk hs) -> exists k, he_key r = Some k /\ blt fk k).
    { intros r Hr. unfold others in Hr. apply filter_In in Hr. destruct Hr as [Hr Hb]. apply andb_prop in Hb. destruct Hb as [Hne Hnk].
      unfold nonempty in Hne. rewrite he_key_head. destruct (he_rest r) as [|[k v] rr] eqn:Er; [discriminate|]. cbn [head_key]. exists k. split; [reflexivity|].
      assert (Hlek : ble fk k) by (apply (Hle (he_rest r) k); [apply in_map; exact Hr|rewrite Er; reflexivity]).
      destruct (ble_cases _ _ Hlek) as [->|Hlt]; [|exact Hlt].
      unfold hkey_is in Hnk. rewrite he_key_head, Er in Hnk. cbn [head_key] in Hnk. rewrite eqb_refl in Hnk. discriminate. }
    assert (Hgk : forall g, In g (grp fk hs) -> he_key g = Some fk).
    { intros g Hg. unfold grp in Hg. apply filter_In in Hg. destruct Hg as [_ Hg]. unfold hkey_is in Hg.
      destruct (he_key g) as [k|]; [|discriminate]. apply bytes_eqb_eq in Hg. subst. reflexivity. }
    pose proof (filter_idx_sorted (hkey_is fk) hs Hinv) as Hgs. fold (grp fk hs) in Hgs.
    assert (Hp2 : Permutation (ms_heap st) (grp fk hs ++ others fk hs)) by (rewrite Hp; apply live_partition).
    destruct (grp fk hs) as [|g1 gs] eqn:Eg; [destruct Hg0|].
    destruct (pop_group fk _ HR (g1 :: gs) _ Hp2 Hgs Hgk) as (heap1 & E1 & P1).
    cbn [map] in Hgs. inversion Hgs as [|? ? Hgs' _]; subst.
    destruct (pop_equal_spec fk _ HR gs [] heap1 (length heap1) P1 Hgs' ltac:(intros x Hx; apply Hgk; right; exact Hx) ltac:(lia))
      as (heap2 & E2 & P2). cbn [rev app] in E2.
    exists (push_back (g1 :: gs) heap2). split.
    + rewrite push_back_perm, live_advE, Eg. apply Permutation_app_head. exact P2.
    + unfold merge_next. rewrite E1. pose proof (Hgk g1 (or_introl eq_refl)) as K1. unfold he_key in K1.
      destruct (he_rest g1) as [|[k1 v1] r1] eqn:Er1; [discriminate|]. injection K1 as ->.
      rewrite E2. rewrite takes_grp, Eg. cbn [flat_map]. unfold hval at 1, he_val. rewrite Er1. cbn [app].
      reflexivity.
  - unfold merge_next. pose proof (min_key_none _ Em) as Hn.
    assert (El : live hs = []).
    { unfold live. clear -Hn. induction hs as [|h hs IH]; [reflexivity|]. cbn [map] in Hn. inversion Hn as [|? ? H1 H2]; subst.
      cbn [filter]. unfold nonempty at 1. rewrite H1. apply IH. exact H2. }
    rewrite El in Hp. apply Permutation_sym, Permutation_nil in Hp. rewrite Hp. reflexivity.
Qed.

Lemma map_rest_advE fk hs : map he_rest (map (advE fk) hs) = map (adv fk) (map he_rest hs).
Proof. rewrite !map_map. apply map_ext. intro h. apply rest_advE. Qed.

Theorem merge_all_refines mf : forall fuel st hs, HInv hs -> Permutation (ms_heap st) (live hs) ->
  Forall ssorted (map he_rest hs) -> (total_len (map he_rest hs) < fuel)%nat ->
  merge_all mf fuel st = run_calls mf (ms_calls st) (acalls fuel (map he_rest hs)).
Proof.
  induction fuel as [|f IH]; intros st hs Hinv Hp Hs Hf; [lia|].
  cbn [merge_all acalls]. pose proof (merge_next_refines mf st hs Hinv Hp) as Hn.
  destruct (min_key (map he_rest hs)) as [fk|] eqn:Em.
  - destruct Hn as (heap' & Hp' & En). rewrite En. cbn [run_calls].
    destruct (mf (ms_calls st) fk (flat_map (takes fk) (map he_rest hs))) as [v| |]; cbn [bind]; try reflexivity.
    pose proof (min_key_le _ _ Em) as Hle. destruct (min_key_in _ _ Em) as (s0 & Hin0 & Hk0).
    assert (Hall : lowb fk (map he_rest hs)).
    { intros s Hin. split; [rewrite Forall_forall in Hs; auto | intros; eapply Hle; eauto]. }
    rewrite (IH (mk_mstate heap' (ms_calls st + 1)) (map (advE fk) hs) (HInv_advE fk hs Hinv) Hp').
    + cbn [ms_calls]. rewrite map_rest_advE. reflexivity.
    + rewrite map_rest_advE. apply Forall_forall. intros s Hin. apply in_map_iff in Hin. destruct Hin as (s1 & <- & Hin1).
      destruct (Hall _ Hin1) as [A B]. apply adv_spec; assumption.
    + rewrite map_rest_advE. pose proof (total_adv_lt fk _ s0 Hall Hin0 Hk0). lia.
  - rewrite Hn. cbn [bind run_calls]. reflexivity.
Qed.

(* the initial heap: every source in index order, the exhausted ones dropped *)
Fixpoint all_entries (srcs : list (list entry)) (i : N) : list hentry :=
  match srcs with [] => [] | s :: r => mk_hentry i s :: all_entries r (N.succ i) end.

Lemma init_heap_live srcs : forall i, init_heap srcs i = live (all_entries srcs i).
Proof.
  induction srcs as [|s r IH]; intro i; [reflexivity|]. cbn [init_heap all_entries]. unfold live. cbn [filter]. unfold nonempty at 1. cbn [he_rest].
  destruct s; [apply IH|]. f_equal. apply IH.
Qed.

Lemma all_entries_rest srcs : forall i, map he_rest (all_entries srcs i) = srcs.
Proof. induction srcs as [|s r IH]; intro i; [reflexivity|]. cbn [all_entries map he_rest]. f_equal. apply IH. Qed.

Lemma all_entries_idx srcs : forall i, StronglySorted N.lt (map he_idx (all_entries srcs i)) /\
  Forall (fun x => i <= x) (map he_idx (all_entries srcs i)).
Proof.
  induction srcs as [|s r IH]; intro i; [split; constructor|]. cbn [all_entries map he_idx].
  destruct (IH (N.succ i)) as [A B]. split.
  - constructor; [exact A|]. eapply Forall_impl; [|exact B]. cbn beta. intros; lia.
  - constructor; [lia|]. eapply Forall_impl; [|exact B]. cbn beta. intros; lia.
Qed.

(* ================= C06 on the executable merger ================= *)
Theorem merge_run_calls mf calls srcs : Forall ssorted srcs ->
  merge_run mf calls srcs = run_calls mf calls (acalls (S (total_len srcs)) srcs).
Proof.
  intro Hs. unfold merge_run.
  rewrite (merge_all_refines mf (S (total_len srcs)) (mk_mstate (init_heap srcs 0) calls) (all_entries srcs 0)).
  - cbn [ms_calls]. rewrite all_entries_rest. reflexivity.
  - apply all_entries_idx.
  - cbn [ms_heap]. rewrite init_heap_live. reflexivity.
  - rewrite all_entries_rest. exact Hs.
  - rewrite all_entries_rest. lia.
Qed.

Theorem merge_calls_spec srcs : Forall ssorted srcs ->
  let cs := acalls (S (total_len srcs)) srcs in
  StronglySorted blt (map fst cs) /\
  (forall k, In k (map fst cs) <-> has_key k srcs) /\
  (forall k vs, In (k, vs) cs -> vs = vals_of k srcs).
Proof.
  intro Hs. destruct (acalls_spec (S (total_len srcs)) srcs Hs ltac:(lia)) as (A & B & C & _). cbv zeta. auto.
Qed.

(* consequences for the output *)
Lemma run_calls_done mf : forall cs calls out n, run_calls mf calls cs = Done (out, n) ->
  map fst out = map fst cs /\ n = calls + len cs /\
  Forall2 (fun c e => exists j, mf j (fst c) (snd c) = Done (snd e) /\ fst e = fst c) cs out.
Proof.
  induction cs as [|[k vs] r IH]; intros calls out n H; cbn [run_calls] in H.
  - injection H as <- <-. split; [reflexivity|]. split; [change (len (@nil (bytes * list bytes))) with 0; lia|constructor].
  - destruct (mf calls k vs) as [v| |] eqn:E; cbn [bind] in H; try discriminate.
    destruct (run_calls mf (calls + 1) r) as [[out' n']| |] eqn:E2; cbn [bind] in H; try discriminate.
    injection H as <- <-. cbn [fst snd]. destruct (IH _ _ _ E2) as (A & B & C).
    split; [cbn [map fst]; f_equal; exact A|]. split; [rewrite len_cons; lia|].
    constructor; [exists calls; cbn [fst snd]; auto|exact C].
Qed.

(* a failing call: the failure of the first call that does not return a value is the result *)
Lemma run_calls_fail mf : forall cs calls, 
  (exists pre k vs post j, cs = pre ++ (k, vs) :: post /\ j = calls + len pre /\
     (forall i c, nth_error pre i = Some c -> exists v, mf (calls + N.of_nat i) (fst c) (snd c) = Done v) /\
     match mf j k vs with Done _ => False | _ => True end /\
     run_calls mf calls cs = match mf j k vs with Done _ => Panic | Panic => Panic | Fail e => Fail e end) \/
  (exists out n, run_calls mf calls cs = Done (out, n)).
Proof.
  induction cs as [|[k vs] r IH]; intro calls; [right; eexists _, _; reflexivity|].
  cbn [run_calls]. destruct (mf calls k vs) as [v| |] eqn:E.
  - destruct (IH (calls + 1)) as [(pre & k' & vs' & post & j & Ecs & Ej & Hpre & Hbad & Er)|(out & n & Er)].
    + left. exists ((k, vs) :: pre), k', vs', post, j. split; [rewrite Ecs; reflexivity|]. split; [rewrite len_cons; lia|].
      split.
      { intros i c Hn. destruct i as [|i]; cbn [nth_error] in Hn.
        - injection Hn as <-. cbn [fst snd]. replace (calls + N.of_nat 0) with calls by lia. eauto.
        - destruct (Hpre i c Hn) as (v' & Ev). exists v'. rewrite <- Ev. f_equal. lia. }
      split; [exact Hbad|]. cbn [bind]. rewrite Er. destruct (mf j k' vs'); reflexivity.
    + right. rewrite Er. cbn [bind]. eexists _, _. reflexivity.
  - left. exists [], k, vs, r, calls. split; [reflexivity|]. split; [change (len (@nil (bytes * list bytes))) with 0; lia|].
    split; [intros i c Hn; destruct i; discriminate|]. rewrite E. auto.
  - left. exists [], k, vs, r, calls. split; [reflexivity|]. split; [change (len (@nil (bytes * list bytes))) with 0; lia|].
    split; [intros i c Hn; destruct i; discriminate|]. rewrite E. auto.
Qed.
