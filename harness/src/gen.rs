//! Generators for writer configurations and entry lists, and helpers to run the real writer.
use crate::util::*;
use grenad::{CompressionType, Writer};
use std::collections::BTreeSet;
use std::io::Write;
use std::num::NonZeroUsize;

pub const CODECS: [CompressionType; 6] = [
    CompressionType::None,
    CompressionType::SnappyPre05,
    CompressionType::Zlib,
    CompressionType::Lz4,
    CompressionType::Zstd,
    CompressionType::Snappy,
];

#[derive(Clone, Debug)]
pub struct FileCfg {
    pub codec: CompressionType,
    pub level: u32,
    /// the value handed to the builder
    pub block_size: usize,
    /// true: through the verification hook (no clamp); false: through the public setter
    pub unclamped: bool,
    /// None: the builder default
    pub interval: Option<usize>,
    pub levels: u8,
}

impl FileCfg {
    pub fn effective_block_size(&self) -> usize {
        if self.unclamped { self.block_size } else { self.block_size.max(1024) }
    }
    pub fn effective_interval(&self) -> usize {
        self.interval.unwrap_or(8)
    }
    pub fn line(&self) -> String {
        format!(
            "cfg {} {} {} {} {}",
            self.codec as u8,
            self.level,
            self.effective_block_size(),
            self.effective_interval(),
            self.levels
        )
    }
    pub fn builder(&self) -> grenad::WriterBuilder {
        // the three public ways to obtain a builder, in turn
        let mut b = match (self.level as usize + self.levels as usize + self.block_size) % 3 {
            0 => Writer::builder(),
            1 => grenad::WriterBuilder::new(),
            _ => grenad::WriterBuilder::default(),
        };
        b.compression_type(self.codec).compression_level(self.level).index_levels(self.levels);
        if self.unclamped {
            b.verif_block_size_unclamped(self.block_size);
        } else if self.block_size != 8192 {
            b.block_size(self.block_size);
        }
        // (the default block size, 8192, is left to the builder: its setter is not called)
        if let Some(i) = self.interval {
            b.index_key_interval(NonZeroUsize::new(i).unwrap());
        }
        b
    }
}

/// `deep`: favour tiny unclamped blocks and several index levels (multi-block non-root levels)
pub fn gen_cfg(rng: &mut Rng, deep: bool, allow_codecs: bool) -> FileCfg {
    let codec = if allow_codecs && rng.chance(2, 5) { *rng.pick(&CODECS) } else { CompressionType::None };
    let level = match rng.below(4) {
        0 => 0,
        1 => rng.below(11) as u32,
        2 => rng.below(23) as u32,
        _ => if codec == CompressionType::Zstd { rng.below(20) as u32 } else { rng.next() as u32 },
    };
    // zstd levels 20..22 allocate ~1 GB of window per block: legitimate but far too slow here
    let level = if codec == CompressionType::Zstd { level.min(9) } else { level };
    let (block_size, unclamped) = if deep || rng.chance(1, 3) {
        (rng.range(16, 256) as usize, true)
    } else {
        (*rng.pick(&[0usize, 1, 1023, 1024, 1025, 2048, 8192, 1500, 3000]), false)
    };
    let interval = match rng.below(6) {
        0 => None,
        1 => Some(1),
        2 => Some(2),
        3 => Some(3),
        4 => Some(8),
        _ => Some(rng.range(1, 64) as usize),
    };
    let levels = if deep {
        *rng.pick(&[1u8, 2, 2, 2, 3, 3, 4])
    } else {
        *rng.pick(&[0u8, 0, 0, 1, 1, 2, 2, 3, 4, 7, 254, 255])
    };
    FileCfg { codec, level, block_size, unclamped, interval, levels }
}

const ALPHABET: [u8; 4] = [0x00, 0x55, 0xAA, 0xFF];

pub fn gen_key(rng: &mut Rng, maxlen: usize) -> Vec<u8> {
    let len = match rng.below(20) {
        0 => 0,
        1..=12 => rng.range(1, 6) as usize,
        13..=16 => rng.range(6, 14) as usize,
        17 => *rng.pick(&[127usize, 128, 129]),
        _ => rng.range(14, maxlen.max(15) as u64) as usize,
    }
    .min(maxlen);
    // mostly the 4-symbol alphabet (prefixes, extensions and 0xFF runs are frequent)
    let free = rng.chance(1, 8);
    (0..len).map(|_| if free { rng.next() as u8 } else { *rng.pick(&ALPHABET) }).collect()
}

pub fn gen_val(rng: &mut Rng, maxlen: usize) -> Vec<u8> {
    let len = match rng.below(16) {
        0 | 1 => 0,
        2..=9 => rng.range(1, 12) as usize,
        10..=12 => rng.range(12, 120) as usize,
        13 => *rng.pick(&[127usize, 128, 255, 256]),
        _ => rng.range(120, maxlen.max(121) as u64) as usize,
    }
    .min(maxlen);
    let b = rng.next() as u8;
    (0..len).map(|i| b.wrapping_add((i % 7) as u8)).collect()
}

/// strictly ascending distinct keys with values; total size kept below `budget` bytes
pub fn gen_entries(rng: &mut Rng, max_n: usize, budget: usize) -> Vec<(Vec<u8>, Vec<u8>)> {
    let n = match rng.below(10) {
        0 => rng.below(3) as usize,
        1..=3 => rng.range(3, 30) as usize,
        _ => rng.range(30, max_n.max(31) as u64) as usize,
    };
    let maxk = *rng.pick(&[8usize, 16, 40, 400]);
    let maxv = *rng.pick(&[0usize, 12, 12, 200, 3000]);
    let mut keys = BTreeSet::new();
    let mut size = 0usize;
    for _ in 0..n {
        let k = gen_key(rng, maxk);
        size += k.len();
        keys.insert(k);
        if size > budget / 2 {
            break;
        }
    }
    let mut out = Vec::new();
    for k in keys {
        let v = gen_val(rng, maxv);
        size += v.len();
        out.push((k, v));
        if size > budget {
            break;
        }
    }
    out
}

pub enum WriteOutcome {
    File(Vec<u8>),
    PanicInsert(usize),
    PanicFinish,
    Err(String),
}

/// A sink like a BufWriter in front of a transactional store: takes at most `max` bytes per write call,
/// holds them as pending and commits them on flush.  `write_vectored` is the default one (the first
/// non-empty buffer through `write`).  What a reader of the store sees is `committed`.
pub struct StagedSink {
    pub committed: Vec<u8>,
    pending: Vec<u8>,
    max: usize,
}
impl StagedSink {
    pub fn new(max: usize) -> StagedSink {
        StagedSink { committed: Vec::new(), pending: Vec::new(), max: max.max(1) }
    }
}
impl std::io::Write for StagedSink {
    fn write(&mut self, buf: &[u8]) -> std::io::Result<usize> {
        let n = buf.len().min(self.max);
        self.pending.extend_from_slice(&buf[..n]);
        Ok(n)
    }
    fn flush(&mut self) -> std::io::Result<()> {
        self.committed.append(&mut self.pending);
        Ok(())
    }
}

/// Runs the real writer.  Four public routes in turn: an owned Vec and `into_inner`; a borrowed Vec and
/// `finish`; a borrowed staged sink (partial writes, commit on flush) and `finish`; an owned staged sink and
/// `into_inner`.  For the staged sink the file is what has been committed when the call returns.
pub fn write_file(cfg: &FileCfg, entries: &[(Vec<u8>, Vec<u8>)]) -> WriteOutcome {
    let total: usize = entries.iter().map(|(k, v)| k.len() + v.len()).sum();
    let route = (entries.len() + total) % 4;
    // a staged sink taking 1..7 bytes per call is too slow for large files: a few hundred there
    let max = if total > 20_000 { 300 + total % 500 } else { 1 + total % 7 };
    macro_rules! inserts {
        ($w:expr) => {
            for (i, (k, v)) in entries.iter().enumerate() {
                match catch(|| $w.insert(k, v)) {
                    Ok(Ok(())) => {}
                    Ok(Err(e)) => return WriteOutcome::Err(io_class(&e)),
                    Err(_) => return WriteOutcome::PanicInsert(i),
                }
            }
        };
    }
    match route {
        1 => {
            let mut sink: Vec<u8> = Vec::new();
            let mut w = cfg.builder().build(&mut sink);
            inserts!(w);
            match catch(move || w.finish()) {
                Ok(Ok(())) => WriteOutcome::File(sink),
                Ok(Err(e)) => WriteOutcome::Err(io_class(&e)),
                Err(_) => WriteOutcome::PanicFinish,
            }
        }
        2 => {
            let mut sink = StagedSink::new(max);
            let mut w = cfg.builder().build(&mut sink);
            inserts!(w);
            match catch(move || w.finish()) {
                Ok(Ok(())) => WriteOutcome::File(sink.committed),
                Ok(Err(e)) => WriteOutcome::Err(io_class(&e)),
                Err(_) => WriteOutcome::PanicFinish,
            }
        }
        3 => {
            let mut w = cfg.builder().build(StagedSink::new(max));
            inserts!(w);
            match catch(move || w.into_inner()) {
                Ok(Ok(sink)) => WriteOutcome::File(sink.committed),
                Ok(Err(e)) => WriteOutcome::Err(io_class(&e)),
                Err(_) => WriteOutcome::PanicFinish,
            }
        }
        _ => {
            let mut w = cfg.builder().build(Vec::new());
            inserts!(w);
            match catch(move || w.into_inner()) {
                Ok(Ok(bytes)) => WriteOutcome::File(bytes),
                Ok(Err(e)) => WriteOutcome::Err(io_class(&e)),
                Err(_) => WriteOutcome::PanicFinish,
            }
        }
    }
}

/// the io::ErrorKind codes shared with the model (Base.v)
pub fn io_kind_code(k: std::io::ErrorKind) -> u32 {
    use std::io::ErrorKind::*;
    match k {
        UnexpectedEof => 1,
        InvalidInput => 2,
        WriteZero => 3,
        Interrupted => 4,
        InvalidData => 6,
        _ => 5,
    }
}
pub fn io_class(e: &std::io::Error) -> String {
    if let Some(inner) = e.get_ref() {
        if inner.to_string().starts_with("injected") {
            return "io7".to_string();
        }
    }
    format!("io{}", io_kind_code(e.kind()))
}
pub fn err_class<U>(e: &grenad::Error<U>) -> String {
    match e {
        grenad::Error::Io(io) => io_class(io),
        grenad::Error::Merge(_) => "merge".to_string(),
        grenad::Error::InvalidCompressionType => "codec".to_string(),
        grenad::Error::InvalidFormatVersion => "version".to_string(),
    }
}

/// Walks the frames of a file body sequentially: (offset, compressed bytes).
pub fn frames(file: &[u8], body_len: usize) -> Vec<(usize, Vec<u8>)> {
    let mut out = Vec::new();
    let mut pos = 0usize;
    while pos + 8 <= body_len {
        let len = u64::from_be_bytes(file[pos..pos + 8].try_into().unwrap()) as usize;
        if pos + 8 + len > body_len {
            break;
        }
        out.push((pos, file[pos + 8..pos + 8 + len].to_vec()));
        pos += 8 + len;
    }
    out
}

/// the compression table lines (`z <uncompressed> <compressed>`) of a file, via the codec itself
pub fn ztable<W: Write>(c: &mut Cases<W>, codec: CompressionType, file: &[u8]) {
    if codec == CompressionType::None || file.len() < 22 {
        return;
    }
    for (_, comp) in frames(file, file.len() - 22) {
        let mut unc = Vec::new();
        if catch(|| grenad::verif::decompress(codec, &comp[..], &mut unc)).map(|r| r.is_ok()).unwrap_or(false) {
            c.line(&format!("z {} {}", hex(&unc), hex(&comp)));
        }
    }
}

/// canonical hash of an entry list (count, fnv1a over len-prefixed keys and values)
pub fn entries_hash<'a>(it: impl Iterator<Item = (&'a [u8], &'a [u8])>) -> (u64, u64) {
    let mut n = 0u64;
    let mut h: u64 = 0xcbf29ce484222325;
    let mut feed = |b: &[u8]| {
        for x in b {
            h ^= *x as u64;
            h = h.wrapping_mul(0x100000001b3);
        }
    };
    for (k, v) in it {
        n += 1;
        feed(&(k.len() as u32).to_le_bytes());
        feed(k);
        feed(&(v.len() as u32).to_le_bytes());
        feed(v);
    }
    (n, h)
}

/// entries whose written file stays below ~4x the budget (deep index stacks repeat every key at
/// every level): halves the entry list until the real writer's output is small enough
pub fn bounded_entries(rng: &mut Rng, cfg: &FileCfg, max_n: usize, budget: usize) -> Vec<(Vec<u8>, Vec<u8>)> {
    let mut es = gen_entries(rng, max_n, budget);
    let cap = (4 * budget).max(20_000).min(260_000);
    loop {
        match write_file(cfg, &es) {
            WriteOutcome::File(f) if f.len() > cap && es.len() > 1 => {
                let keep = es.len() / 2;
                es.truncate(keep);
            }
            _ => return es,
        }
    }
}
