(* C10 — Version-1 files remain readable with identical results.  Statements only. *)
From Grenad.gen Require Import Consts.
From Grenad.model Require Import Base Block Trailer Reader.
From Grenad.proofs Require Import TrailerProofs ReaderBasics.

(* the 21-byte V1 trailer of the property text, spelled out, opens as version 1 with the stored
   count and codec and a single-level index (index_levels = 0), whatever the body is *)
Theorem C10_v1_open : forall body root codec count,
  root < 2^64 -> count < 2^64 -> codec <= 5 ->
  open_meta (body ++ le_bytes 8 root ++ [codec] ++ le_bytes 8 count ++ le_bytes 4 1983008076 (* 0x76324D4C *))
  = Done (mk_meta FormatV1 root codec count 0).
Proof. exact open_v1_layout. Qed.
Print Assumptions C10_v1_open.

(* the same body under a V2 trailer with index_levels = 0 opens with the same root, codec, count *)
Theorem C10_v1_v2_same_fields : forall body root codec count,
  root < 2^64 -> count < 2^64 -> codec <= 5 ->
  open_meta (body ++ trailer_bytes (mk_meta FormatV1 root codec count 0)) = Done (mk_meta FormatV1 root codec count 0) /\
  open_meta (body ++ trailer_bytes (mk_meta FormatV2 root codec count 0)) = Done (mk_meta FormatV2 root codec count 0).
Proof. exact open_v1_v2. Qed.
Print Assumptions C10_v1_v2_same_fields.

(* a block load only looks at the frame it is pointed to: what follows the body (either trailer)
   is irrelevant for every frame that lies inside the body *)
Theorem C10_load_ignores_trailer : forall dec body t1 t2 codec ord off,
  frame_inside body off ->
  load_block dec (body ++ t1) codec ord off = load_block dec (body ++ t2) codec ord off.
Proof. exact load_ignores_suffix. Qed.
Print Assumptions C10_load_ignores_trailer.

(* the cursor consults the file only through the loader, the root offset and the level count:
   with loaders that agree, every operation from every state gives the same result *)
Theorem C10_cursor_depends_on_loader_only : forall ld1 ld2 root levels,
  (forall ord off, ld1 ord off = ld2 ord off) ->
  forall st o, cstep ld1 root levels st o = cstep ld2 root levels st o.
Proof. exact cstep_ext. Qed.
Print Assumptions C10_cursor_depends_on_loader_only.

Example C10_example :
  open_meta ([5; 5] ++ le_bytes 8 300 ++ [4] ++ le_bytes 8 77 ++ le_bytes 4 1983008076)
  = Done (mk_meta FormatV1 300 4 77 0).
Proof. vm_compute. reflexivity. Qed.
