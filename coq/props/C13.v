(* C13 — Opening never panics and accepts exactly byte strings ending in a valid trailer.
   Statements only; literals are those of the property text (magic numbers, record sizes). *)
From Grenad.gen Require Import Consts.
From Grenad.model Require Import Base Trailer.
From Grenad.proofs Require Import TrailerProofs.

(* the constants the code uses today are the ones the statements below spell out *)
Theorem C13_constants :
  MAGIC_V2 = 1730401476 (* 0x6723D4C4 *) /\ MAGIC_V1 = 1983008076 (* 0x76324D4C *) /\
  METADATA_V2_SIZE + 4 = 22 /\ METADATA_V1_SIZE + 4 = 21 /\ CODEC_ID_MAX = 5 /\ CODEC_IDS_COUNT = 6.
Proof. repeat split; reflexivity. Qed.
Print Assumptions C13_constants.

(* for every byte string whatsoever *)
Theorem C13_no_panic : forall f : bytes, open_meta f <> Panic.
Proof. exact open_never_panics. Qed.
Print Assumptions C13_no_panic.

(* valid_trailer_suffixb f: f ends with le32 0x6723D4C4 preceded by >= 18 bytes whose 9th is a codec id
   in 0..5, or with le32 0x76324D4C preceded by >= 17 bytes whose 9th is a codec id in 0..5 *)
Theorem C13_open_iff : forall f : bytes,
  (exists m, open_meta f = Done m) <-> valid_trailer_suffixb f = true.
Proof. exact open_iff. Qed.
Print Assumptions C13_open_iff.

(* every truncation (crash point) of any file is decided by the same criterion on its own tail *)
Theorem C13_truncations : forall (f : bytes) (cut : nat),
  (exists m, open_meta (firstn cut f) = Done m) <-> valid_trailer_suffixb (firstn cut f) = true.
Proof. intros f cut. exact (open_iff (firstn cut f)). Qed.
Print Assumptions C13_truncations.

(* whatever precedes it, a trailer written by the writer is accepted and read back exactly *)
Theorem C13_written_trailer : forall body m, wf_meta m -> open_meta (body ++ trailer_bytes m) = Done m.
Proof. exact open_written. Qed.
Print Assumptions C13_written_trailer.

(* non-vacuity: a truncation IS accepted when the tail happens to be a trailer (a value embedding
   one), a one-byte-short trailer is rejected, an unknown codec id is rejected *)
Example C13_examples :
  let t := trailer_bytes (mk_meta FormatV2 7 3 1 0) in
  valid_trailer_suffixb ([1; 2; 3] ++ t ++ [9; 9]) = false /\
  valid_trailer_suffixb (firstn (3 + 22) ([1; 2; 3] ++ t ++ [9; 9])) = true /\
  valid_trailer_suffixb (tl t) = false /\
  open_meta (trailer_bytes (mk_meta FormatV2 7 6 1 0)) = Fail EInvalidCodec /\
  open_meta [1; 2; 3] = Fail (EIo IO_INVALID_INPUT) /\
  open_meta [0; 0; 0; 0] = Fail EInvalidVersion.
Proof. vm_compute. repeat split; reflexivity. Qed.
