(* The declarative side of the V2/V1 file format: an independent decoder that walks the
   index tree by offsets, the list of blocks with their tree level, and the per-block
   predicates of C15 (cut at the block size) and C18 (strictly ascending keys).
   Shares nothing with model/Writer.v. *)
From Grenad.model Require Import Base Varint Block Trailer Reader Spec.

(* every entry of a parsed block, in payload order; fuel = the payload *)
Fixpoint block_entries_from (fuel : bytes) (b : block) (off : N) : outcome (list (N * entry)) :=
  do e <- entry_at b off;
  match e with
  | None => Done []
  | Some (k, v, next) =>
    match fuel with
    | [] => Fail EFuel
    | _ :: f => do rest <- block_entries_from f b next; Done ((off, (k, v)) :: rest)
    end
  end.
Definition block_entries (b : block) : outcome (list (N * entry)) :=
  block_entries_from (blk_payload b) b 0.

Section WithFile.
  Variable decompress : N -> bytes -> outcome bytes.
  Variable file : bytes.
  Variable codec : N.

  Definition ld (off : N) : outcome block := load_block decompress file codec 0 off.

  (* a node of the tree: tree level (0 = root), frame offset, parsed block *)
  Notation node := (N * N * block)%type.

  (* walk: [depth] index levels remain below this block (0 = data block) *)
  Fixpoint walk (depth : nat) (lvl : N) (off : N) : outcome (list entry * list node) :=
    do b <- ld off;
    do es <- block_entries b;
    match depth with
    | O => Done (map snd es, [(lvl, off, b)])
    | S d =>
      do r <- (fix children (l : list (N * entry)) : outcome (list entry * list node) :=
                 match l with
                 | [] => Done ([], [])
                 | (_, (_, ob)) :: rest =>
                   do j <- off_of_val ob;
                   do sub <- walk d (lvl + 1) j;
                   do others <- children rest;
                   Done (fst sub ++ fst others, snd sub ++ snd others)
                 end) es;
      Done (fst r, (lvl, off, b) :: snd r)
    end.

End WithFile.

(* the independent decoder: trailer, then the tree with the codec the trailer names *)
Definition decode_file (decompress : N -> bytes -> outcome bytes) (file : bytes)
  : outcome (meta * list entry * list (N * N * block)) :=
  do m <- open_meta file;
  do r <- walk decompress file (m_codec m) (S (N.to_nat (m_levels m))) 0 (m_root m);
  Done (m, fst r, snd r).

(* ---- per-block predicates ---- *)
(* uncompressed size of a block = payload + 8 per offset + 4 *)
Definition block_size_of (b : block) : N := len (blk_payload b) + len (blk_offsets b) * 8 + 4.

(* the size the block had before its last entry was inserted *)
Definition size_without_last (b : block) (es : list (N * entry)) : N :=
  match last_opt es with
  | None => block_size_of b
  | Some (start, _) =>
    let noffs := len (blk_offsets b) in
    let noffs' := if (0 <? start) && (match last_opt (blk_offsets b) with Some o => o =? start | None => false end)
                  then noffs - 1 else noffs in
    start + noffs' * 8 + 4
  end.

(* C18: the keys of a block are strictly ascending *)
Definition block_sorted (es : list (N * entry)) : bool := sorted_strictb (map (fun x => fst (snd x)) es).

(* footer offsets: first 0, then the start of every interval-th further entry *)
Fixpoint expected_offsets (interval : N) (ctr : N) (es : list (N * entry)) : list N :=
  match es with
  | [] => []
  | (off, _) :: r =>
    if ctr =? interval then off :: expected_offsets interval 1 r
    else expected_offsets interval (ctr + 1) r
  end.
Definition offsets_ok (interval : N) (b : block) (es : list (N * entry)) : bool :=
  let exp := 0 :: expected_offsets interval 0 es in
  (len exp =? len (blk_offsets b)) && forallb (fun p => fst p =? snd p) (combine exp (blk_offsets b)).
