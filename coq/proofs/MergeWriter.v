(* C06 / C07, last clause: the output of a merge (and of the sorter) has strictly ascending keys, so
   streaming it into a writer yields a file that reads back as exactly that output. *)
From Coq Require Import Lia ZArith ZifyN ZifyBool ZifyNat Sorted.
From Grenad.gen Require Import Consts.
From Grenad.model Require Import Base Block Trailer Writer Reader Spec Merger Sorter.
From Grenad.proofs Require Import BaseProofs SortedFacts BlockProofs MergerProofs MergeRefine WriterStore WriterProgress ReaderRefine.
Ltac Zify.zify_post_hook ::= Z.div_mod_to_equations.

Theorem merge_output_sorted mf calls srcs out n : Forall ssorted srcs ->
  merge_run mf calls srcs = Done (out, n) ->
  sorted_strictb (map fst out) = true /\ (forall k, In k (map fst out) <-> has_key k srcs) /\ n = calls + len out.
Proof.
  intros Hs H. rewrite (merge_run_calls mf calls srcs Hs) in H.
  destruct (merge_calls_spec srcs Hs) as (A & B & _). cbv zeta in A, B.
  destruct (run_calls_done mf _ calls out n H) as (E & En & F).
  split; [apply sorted_strictb_SS; rewrite E; exact A|]. split; [intro k; rewrite E; apply B|].
  rewrite En. f_equal. rewrite !len_length. f_equal. rewrite <- (map_length fst out), E, map_length. reflexivity.
Qed.

(* the merged stream written through a writer (any configuration) reads back as the merged stream *)
Theorem merge_into_writer mf calls srcs out n compress decompress c :
  Forall ssorted srcs -> merge_run mf calls srcs = Done (out, n) ->
  (forall b z, compress (wc_codec c) (wc_level c) b = Done z -> decompress (wc_codec c) z = Done b) ->
  (forall b, exists z, compress (wc_codec c) (wc_level c) b = Done z) ->
  wc_levels c < 256 -> 1 <= wc_interval c -> wc_codec c <= 5 ->
  out <> [] -> entries_ok out -> len out + 1 <= U32_MAX ->
  exists s lg m,
    w_run_gen vsink vs_wr vs_fl vs_count compress c vs_empty out = (len out, Done (s, lg, m)) /\
    (len (vs_bytes s) < 2^64 -> mem_ok lg ->
     open_meta (vs_bytes s) = Done m /\ m_count m = len out /\
     exists st rs, run_ops (load_block decompress (vs_bytes s) (m_codec m)) (m_root m) (m_levels m) cs_fresh
                           (repeat ONext (S (length out))) = Done (st, rs) /\ rs = map Some out ++ [None]).
Proof.
  intros Hs Hm Hcodec Htotal HL Hint Hk Hne Hok Hlen.
  destruct (merge_output_sorted mf calls srcs out n Hs Hm) as (Hsorted & _ & _).
  destruct (roundtrip_total compress decompress c Hcodec Htotal out HL Hint Hk Hne Hsorted Hok Hlen) as (s & lg & m & Hrun & Hread).
  exists s, lg, m. split; [exact Hrun|]. intros H64 Hmem. destruct (Hread H64 Hmem) as (A & B & _ & Cc & _).
  split; [exact A|]. split; [exact B|]. exact Cc.
Qed.
