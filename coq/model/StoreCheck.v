(* An executable check of the hypotheses of the reader refinement (proofs/ReaderRefine.v: wf_store)
   on the blocks of a decoded file.  It is evaluated by the correspondence driver on every file the
   implementation writes (and on the files of the frozen 0.4.7 writer); proofs/StoreCheckProofs.v proves
   it sound: when it returns true on the nodes an independent decode of the file produced, the file is
   a well-formed store whose content is the decoded entries, so every reader theorem applies to it. *)
From Grenad.gen Require Import Consts.
From Grenad.model Require Import Base Varint Block Trailer Reader Spec Format.

Notation node := (N * N * block)%type.     (* tree level (0 = root), frame offset, parsed block *)

Fixpoint find_node (nodes : list node) (off : N) : option node :=
  match nodes with
  | [] => None
  | (l, o, b) :: r => if o =? off then Some (l, o, b) else find_node r off
  end.
Definition node_block (nodes : list node) (off : N) : option block :=
  match find_node nodes off with Some (_, _, b) => Some b | None => None end.

Definition entries_of (b : block) : option (list (N * entry)) :=
  match block_entries b with Done l => Some l | _ => None end.
Definition es_of (b : block) : list entry :=
  match entries_of b with Some l => map snd l | None => [] end.

(* the restart table as indices into the entry starts: a strictly increasing selection *)
Fixpoint match_offsets (offs : list N) (starts : list N) (base : nat) : option (list nat) :=
  match offs with
  | [] => Some []
  | o :: offs' =>
    (fix find (st : list N) (i : nat) : option (list nat) :=
       match st with
       | [] => None
       | s :: st' => if s =? o then match match_offsets offs' st' (S i) with Some r => Some (i :: r) | None => None end
                     else find st' (S i)
       end) starts base
  end.
Definition ridx_of (b : block) : option (list nat) :=
  match entries_of b with Some l => match_offsets (blk_offsets b) (map fst l) 0 | None => None end.

Fixpoint bytes_eq (a b : bytes) : bool :=
  match a, b with
  | [], [] => true
  | x :: a', y :: b' => (x =? y) && bytes_eq a' b'
  | _, _ => false
  end.

Definition block_wf (b : block) : bool :=
  match entries_of b with
  | None => false
  | Some l =>
    let es := map snd l in
    match es with
    | [] => false
    | _ :: _ =>
      bytes_eq (flat_map (fun e => frame (fst e) (snd e)) es) (blk_payload b)
      && forallb (fun e => (len (fst e) <=? U32_MAX) && (len (snd e) <=? U32_MAX)) es
      && sorted_strictb (map fst es)
      && match ridx_of b with Some (O :: _) => true | _ => false end
    end
  end.

(* the level sequences, exactly as the reader refinement defines them over a store *)
Definition coffx (it : entry) : N := be_decode (snd it).
Definition blk_items (nodes : list node) (off : N) : list entry :=
  match node_block nodes off with Some b => if block_wf b then es_of b else [] | None => [] end.
Fixpoint lseq_x (nodes : list node) (root : N) (k : nat) : list entry :=
  match k with
  | O => blk_items nodes root
  | S k' => flat_map (fun it => blk_items nodes (coffx it)) (lseq_x nodes root k')
  end.
Definition offs_x (nodes : list node) (root : N) (k : nat) : list N :=
  match k with O => [root] | S k' => map coffx (lseq_x nodes root k') end.

Definition stored_ok (nodes : list node) (off : N) : bool :=
  match node_block nodes off with Some b => block_wf b | None => false end.

(* an index level [cur] (with [offs] the offsets of the blocks of this level): items are 8-byte offsets of
   stored blocks that are not blocks of this level, each carrying the last key of the block it points to *)
Definition level_ok (nodes : list node) (offs : list N) (cur : list entry) : bool :=
  forallb (fun it => (len (snd it) =? 8) && stored_ok nodes (coffx it)) cur
  && forallb (fun it => negb (existsb (N.eqb (coffx it)) offs)) cur
  && forallb (fun it => match last_opt (blk_items nodes (coffx it)) with
                        | Some (k', _) => bytes_eqb k' (fst it)
                        | None => false
                        end) cur.

(* [n] index levels remain, [cur] is the current level sequence: every level strictly ascending, every
   index level well formed; the last one (n = 0) is the data level *)
Fixpoint check_levels (nodes : list node) (n : nat) (offs : list N) (cur : list entry) : bool :=
  sorted_strictb (map fst cur) &&
  match n with
  | O => true
  | S n' => level_ok nodes offs cur &&
            check_levels nodes n' (map coffx cur) (flat_map (fun it => blk_items nodes (coffx it)) cur)
  end.

(* [nodes]: the (level, offset, block) triples an independent decode loaded *)
Definition store_wf (nodes : list node) (root levels : N) : bool :=
  stored_ok nodes root && check_levels nodes (S (N.to_nat levels)) [root] (blk_items nodes root).
