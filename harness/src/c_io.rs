//! C11 (schedules: partial writes / short reads / interruptions) and C12 (faults) scenarios.
use crate::c_hist::{gen_history, run_history_on, Op};
use crate::c_merge::LoggingConcat;
use crate::c_sorter::{gen_cfg_sorter, SortCfg};
use crate::gen::*;
use crate::util::*;
use grenad::{ChunkCreator, CompressionType, Merger, Reader, SortAlgorithm, SorterBuilder};
use std::cell::{Cell, RefCell};
use std::io::{self, Cursor, Read, Seek, SeekFrom, Write};
use std::rc::Rc;

#[derive(Clone, Copy, Debug)]
pub enum Resp {
    Accept(usize),
    Interrupt,
}

/// the injected failure: recognised by its message, its kind cycles through the kinds a real device
/// reports (Interrupted excepted, which std retries) — whatever the kind, it is an I/O error of the source
fn injected() -> io::Error {
    use std::sync::atomic::{AtomicUsize, Ordering};
    static N: AtomicUsize = AtomicUsize::new(0);
    const KINDS: [io::ErrorKind; 6] = [
        io::ErrorKind::Other, io::ErrorKind::UnexpectedEof, io::ErrorKind::InvalidInput,
        io::ErrorKind::InvalidData, io::ErrorKind::BrokenPipe, io::ErrorKind::PermissionDenied,
    ];
    io::Error::new(KINDS[N.fetch_add(1, Ordering::Relaxed) % KINDS.len()], "injected fault")
}

/// the injected failure of a flush or a seek: neither std nor grenad retries those, so ErrorKind::Interrupted is
/// one more kind the failure may carry (a flush that failed has not happened, whatever the kind says)
fn injected_no_retry() -> io::Error {
    use std::sync::atomic::{AtomicUsize, Ordering};
    static N: AtomicUsize = AtomicUsize::new(0);
    const KINDS: [io::ErrorKind; 4] = [io::ErrorKind::Interrupted, io::ErrorKind::Other, io::ErrorKind::Interrupted, io::ErrorKind::WriteZero];
    io::Error::new(KINDS[N.fetch_add(1, Ordering::Relaxed) % KINDS.len()], "injected fault")
}

/// shared fault/schedule controller: a PRNG-driven or explicit schedule, plus one optional fault
pub struct Ctl {
    pub explicit: RefCell<Vec<Resp>>, // consumed from the front (stored reversed)
    pub rng: RefCell<Option<Rng>>,    // when Some: responses drawn from it once `explicit` is empty
    pub mode: Cell<u8>,               // rng mode: 0 one byte, 1 interrupt before every call, 2 alternating, 3 random
    pub tick: Cell<u64>,
    pub calls: RefCell<Vec<usize>>,   // offered lengths of write calls
    pub writes: Cell<u64>,
    pub reads: Cell<u64>,
    pub seeks: Cell<u64>,
    pub start_seeks: Cell<u64>,
    pub flushes: Cell<u64>,
    pub bytes_written: Cell<u64>,
    pub committed: Cell<u64>,         // bytes_written at the last successful flush
    pub oneshot: Cell<bool>,          // the fault fires once, then the component works again
    /// fault: (component, ordinal or byte position)
    pub fault: Cell<Option<(u8, u64)>>, // 0 write-at-byte, 1 flush#, 2 read#, 3 seek#
    pub fired_at: Cell<Option<u64>>,    // the public call in progress when the fault fired
    pub public_call: Cell<u64>,
    pub read_load: RefCell<Vec<u64>>,   // for every read call: number of Start-seeks before it
}
impl Ctl {
    pub fn new() -> Rc<Ctl> {
        Rc::new(Ctl {
            explicit: RefCell::new(Vec::new()), rng: RefCell::new(None), mode: Cell::new(0), tick: Cell::new(0),
            calls: RefCell::new(Vec::new()), writes: Cell::new(0), reads: Cell::new(0), seeks: Cell::new(0),
            start_seeks: Cell::new(0), flushes: Cell::new(0), bytes_written: Cell::new(0), committed: Cell::new(0), oneshot: Cell::new(false), fault: Cell::new(None),
            fired_at: Cell::new(None), public_call: Cell::new(0), read_load: RefCell::new(Vec::new()),
        })
    }
    fn next_resp(&self) -> Option<Resp> {
        if let Some(r) = self.explicit.borrow_mut().pop() {
            return Some(r);
        }
        let mut g = self.rng.borrow_mut();
        let rng = g.as_mut()?;
        let t = self.tick.get();
        self.tick.set(t + 1);
        Some(match self.mode.get() {
            0 => Resp::Accept(1),
            1 => if t % 2 == 0 { Resp::Interrupt } else { Resp::Accept(usize::MAX) },
            2 => if t % 3 == 0 { Resp::Interrupt } else { Resp::Accept(1 + (t % 5) as usize) },
            _ => if rng.chance(1, 4) { Resp::Interrupt } else { Resp::Accept(rng.range(1, 40) as usize) },
        })
    }
    fn fire(&self) {
        if self.fired_at.get().is_none() {
            self.fired_at.set(Some(self.public_call.get()));
        }
    }
}

/// Write + Read + Seek over an in-memory buffer, driven by a controller
pub struct Sched {
    pub data: Cursor<Vec<u8>>,
    pub ctl: Rc<Ctl>,
}
impl Sched {
    pub fn new(data: Vec<u8>, ctl: Rc<Ctl>) -> Sched {
        Sched { data: Cursor::new(data), ctl }
    }
}
impl Clone for Sched {
    fn clone(&self) -> Sched {
        Sched { data: self.data.clone(), ctl: self.ctl.clone() }
    }
}
impl Write for Sched {
    fn write(&mut self, buf: &[u8]) -> io::Result<usize> {
        let c = &self.ctl;
        c.writes.set(c.writes.get() + 1);
        c.calls.borrow_mut().push(buf.len());
        if let Some((0, p)) = c.fault.get() {
            let done = c.bytes_written.get();
            if done + buf.len() as u64 > p && !buf.is_empty() {
                if done < p {
                    // deliver the bytes before the fault position, the next call fails
                    let n = (p - done) as usize;
                    self.data.write_all(&buf[..n])?;
                    c.bytes_written.set(p);
                    return Ok(n);
                }
                c.fire();
                if c.oneshot.get() {
                    c.fault.set(None);
                }
                return Err(injected());
            }
        }
        let n = match c.next_resp() {
            Some(Resp::Interrupt) => return Err(io::Error::new(io::ErrorKind::Interrupted, "interrupted")),
            Some(Resp::Accept(n)) => n.min(buf.len()),
            None => buf.len(),
        };
        self.data.write_all(&buf[..n])?;
        c.bytes_written.set(c.bytes_written.get() + n as u64);
        Ok(n)
    }
    fn flush(&mut self) -> io::Result<()> {
        let c = &self.ctl;
        let k = c.flushes.get();
        c.flushes.set(k + 1);
        if c.fault.get() == Some((1, k)) {
            c.fire();
            if c.oneshot.get() {
                c.fault.set(None);
            }
            return Err(injected_no_retry());
        }
        c.committed.set(c.bytes_written.get());
        Ok(())
    }
}
impl Read for Sched {
    fn read(&mut self, buf: &mut [u8]) -> io::Result<usize> {
        let c = &self.ctl;
        let k = c.reads.get();
        c.reads.set(k + 1);
        c.read_load.borrow_mut().push(c.start_seeks.get());
        if c.fault.get() == Some((2, k)) {
            c.fire();
            return Err(injected());
        }
        let n = match c.next_resp() {
            Some(Resp::Interrupt) => return Err(io::Error::new(io::ErrorKind::Interrupted, "interrupted")),
            Some(Resp::Accept(n)) => n.min(buf.len()),
            None => buf.len(),
        };
        self.data.read(&mut buf[..n])
    }
}
impl Seek for Sched {
    fn seek(&mut self, pos: SeekFrom) -> io::Result<u64> {
        let c = &self.ctl;
        let k = c.seeks.get();
        c.seeks.set(k + 1);
        if c.fault.get() == Some((3, k)) {
            c.fire();
            return Err(injected_no_retry());
        }
        if let SeekFrom::Start(_) = pos {
            c.start_seeks.set(c.start_seeks.get() + 1);
        }
        self.data.seek(pos)
    }
}

fn resp_tokens(s: &[Resp]) -> String {
    if s.is_empty() {
        return "-".to_string();
    }
    s.iter().map(|r| match r { Resp::Accept(n) => format!("a{}", n), Resp::Interrupt => "i".to_string() }).collect::<Vec<_>>().join(",")
}

fn gen_schedule(rng: &mut Rng, len: usize) -> Vec<Resp> {
    let kind = rng.below(5);
    (0..len)
        .map(|t| match kind {
            0 => Resp::Accept(1),
            1 => if t % 2 == 0 { Resp::Interrupt } else { Resp::Accept(1_000_000) },
            2 => if t % 3 == 0 { Resp::Interrupt } else { Resp::Accept(1 + t % 5) },
            3 => Resp::Accept(rng.range(1, 9) as usize),
            _ => if rng.chance(1, 3) { Resp::Interrupt } else { Resp::Accept(rng.range(1, 300) as usize) },
        })
        .collect()
}

// ------------------------------------------------------------------ C11 writer side
pub fn generate_c11_write<W: Write>(c: &mut Cases<W>, rng: &mut Rng, thorough: bool) {
    let n = if thorough { 3000 } else { 250 };
    for i in 0..n {
        let cfg = gen_cfg(rng, i % 2 == 0, i % 3 == 0);
        let cfg = FileCfg { levels: cfg.levels.min(6), ..cfg };
        let es = bounded_entries(rng, &cfg, 120, 2500);
        let plain = match write_file(&cfg, &es) { WriteOutcome::File(f) => f, _ => continue };
        let slen = rng.range(0, 2 * plain.len() as u64 + 4) as usize;
        let sched = gen_schedule(rng, slen);
        let ctl = Ctl::new();
        *ctl.explicit.borrow_mut() = sched.iter().rev().copied().collect();
        let res = catch(|| -> Result<Vec<u8>, String> {
            let mut w = cfg.builder().build(Sched::new(Vec::new(), ctl.clone()));
            for (k, v) in &es {
                w.insert(k, v).map_err(|e| io_class(&e))?;
            }
            Ok(w.into_inner().map_err(|e| io_class(&e))?.data.into_inner())
        });
        c.begin("wsched");
        c.line("prop C11");
        c.line(&cfg.line());
        for (k, v) in &es {
            c.line(&format!("e {} {}", hex(k), hex(v)));
        }
        ztable(c, cfg.codec, &plain);
        c.line(&format!("sched {}", resp_tokens(&sched)));
        c.line(&format!("plain {}", hex(&plain)));
        match res {
            Ok(Ok(f)) => c.line(&format!("impl file {}", hex(&f))),
            Ok(Err(e)) => c.line(&format!("impl err {}", e)),
            Err(_) => c.line("impl panic -"),
        }
        let calls = ctl.calls.borrow();
        c.line(&format!("calls {} {:016x}", calls.len(), fnv(calls.iter().map(|x| x.to_string()).collect::<Vec<_>>().join(",").as_bytes())));
        c.bump("write_calls.total", calls.len() as u64);
        c.bump("sched.interrupts", sched.iter().filter(|r| matches!(r, Resp::Interrupt)).count() as u64);
        if calls.len() > es.len() + 10 {
            c.nontrivial(&fnv(format!("{:?}{:?}", sched, plain).as_bytes()).to_le_bytes());
        }
        c.end();
    }
}

// ------------------------------------------------------------------ C11 reader side: "same" cases
fn same_case<W: Write>(c: &mut Cases<W>, what: &str, reference: &str, got: &[(String, String)]) {
    c.begin("same");
    c.line("prop C11");
    c.line(&format!("what {}", what));
    c.line(&format!("ref {}", reference));
    for (name, g) in got {
        c.line(&format!("got {} {}", name, g));
    }
    c.nontrivial(&fnv(reference.as_bytes()).to_le_bytes());
    c.bump(&format!("same.{}", what), 1);
    c.end();
}

fn mode_ctl(rng: &mut Rng, mode: u8) -> Rc<Ctl> {
    let ctl = Ctl::new();
    *ctl.rng.borrow_mut() = Some(rng.fork());
    ctl.mode.set(mode);
    ctl
}

fn digest(lines: &[String]) -> String {
    format!("{} {:016x}", lines.len(), fnv(lines.join("\n").as_bytes()))
}

pub fn generate_c11_read<W: Write>(c: &mut Cases<W>, rng: &mut Rng, thorough: bool) {
    let n = if thorough { 1500 } else { 120 };
    for i in 0..n {
        // cursor histories and iterators on every codec (their decoders sit between grenad and the source)
        let mut cfg = gen_cfg(rng, i % 2 == 0, true);
        cfg.codec = CODECS[i % 6];
        cfg.levels = cfg.levels.min(4);
        let es = bounded_entries(rng, &cfg, 150, 4000);
        let file = match write_file(&cfg, &es) { WriteOutcome::File(f) => f, _ => continue };
        let ops = gen_history(rng, &es, 40, 1);
        let reference = match run_history_on(Cursor::new(file.clone()), &ops) { Ok(l) => digest(&l), Err(e) => e };
        let mut got = Vec::new();
        for mode in 0..4u8 {
            let ctl = mode_ctl(rng, mode);
            let r = match run_history_on(Sched::new(file.clone(), ctl), &ops) { Ok(l) => digest(&l), Err(e) => e };
            got.push((format!("mode{}", mode), r));
        }
        same_case(c, &format!("history-codec{}", cfg.codec as u8), &reference, &got);

        // merger over scheduled sources
        if i % 3 == 0 {
            let srcs = crate::c_merge::gen_sources(rng);
            let files: Vec<Vec<u8>> = srcs.iter().map(|s| match write_file(&FileCfg { codec: CODECS[i % 6], ..cfg.clone() }, s) { WriteOutcome::File(f) => f, _ => panic!() }).collect();
            let run = |mk: &mut dyn FnMut(Vec<u8>) -> Sched| -> String {
                let mf = LoggingConcat { calls: RefCell::new(Vec::new()), fail_at: None, sort: false };
                let r = catch(|| -> Result<Vec<(Vec<u8>, Vec<u8>)>, String> {
                    let mut b = Merger::builder(&mf);
                    for f in &files {
                        b.push(Reader::new(mk(f.clone())).map_err(|e| err_class(&e))?.into_cursor().map_err(|e| err_class(&e))?);
                    }
                    let mut it = b.build().into_stream_merger_iter().map_err(|e| err_class(&e))?;
                    let mut out = Vec::new();
                    while let Some((k, v)) = it.next().map_err(|e| err_class(&e))? {
                        out.push((k.to_vec(), v.to_vec()));
                    }
                    Ok(out)
                });
                match r {
                    Ok(Ok(o)) => { let (n, h) = entries_hash(o.iter().map(|(k, v)| (&k[..], &v[..]))); format!("{} {:016x}", n, h) }
                    Ok(Err(e)) => format!("err {}", e),
                    Err(_) => "panic".to_string(),
                }
            };
            let plainctl = Ctl::new();
            let reference = run(&mut |f| Sched::new(f, plainctl.clone()));
            let mut got = Vec::new();
            for mode in 0..4u8 {
                let ctl = mode_ctl(rng, mode);
                got.push((format!("mode{}", mode), run(&mut |f| Sched::new(f, ctl.clone()))));
            }
            same_case(c, "merger", &reference, &got);
        }
        // sorter over scheduled chunk storage (reads and writes)
        if i % 3 == 1 {
            let scfg = gen_cfg_sorter(rng);
            let ins: Vec<(Vec<u8>, Vec<u8>)> = (0..rng.range(5, 150)).map(|_| (gen_key(rng, 6), gen_val(rng, scfg.threshold / 4))).collect();
            let run = |ctl: Rc<Ctl>| -> String { run_sorter(&scfg, &ins, ctl, None, None).0 };
            let reference = run(Ctl::new());
            let mut got = Vec::new();
            for mode in 0..4u8 {
                got.push((format!("mode{}", mode), run(mode_ctl(rng, mode))));
            }
            same_case(c, "sorter", &reference, &got);
        }
    }
}

/// chunk creator handing out scheduled / faulty in-memory chunks; may fail at the j-th create
pub struct SchedCreator {
    pub ctl: Rc<Ctl>,
    pub creates: Cell<u64>,
    pub fail_create: Option<(u64, u8)>, // (ordinal, error variant 0 io / 1 InvalidFormatVersion / 2 InvalidCompressionType)
}
impl ChunkCreator for SchedCreator {
    type Chunk = Sched;
    type Error = grenad::Error;
    fn create(&self) -> Result<Sched, grenad::Error> {
        let k = self.creates.get();
        self.creates.set(k + 1);
        if let Some((j, variant)) = self.fail_create {
            if j == k {
                self.ctl.fire();
                return Err(match variant {
                    0 => grenad::Error::Io(injected()),
                    1 => grenad::Error::InvalidFormatVersion,
                    _ => grenad::Error::InvalidCompressionType,
                });
            }
        }
        Ok(Sched::new(Vec::new(), self.ctl.clone()))
    }
}

/// runs a sorter to completion (stream path); returns (digest or error, index of the failing public
/// call: insert i, or n = the final call)
pub fn run_sorter(cfg: &SortCfg, ins: &[(Vec<u8>, Vec<u8>)], ctl: Rc<Ctl>, fail_create: Option<(u64, u8)>, fail_merge: Option<usize>) -> (String, Option<usize>) {
    let mf = LoggingConcat { calls: RefCell::new(Vec::new()), fail_at: fail_merge, sort: !cfg.stable };
    let mut b = SorterBuilder::new(mf);
    b.verif_dump_threshold_unclamped(cfg.threshold);
    b.verif_initial_capacity(cfg.init_cap);
    b.allow_realloc(cfg.realloc);
    b.max_nb_chunks(cfg.max_chunks);
    b.sort_algorithm(if cfg.stable { SortAlgorithm::Stable } else { SortAlgorithm::Unstable });
    b.chunk_compression_type(cfg.codec);
    b.index_levels(cfg.levels);
    b.verif_block_size_unclamped(cfg.block_size);
    let mut sorter = b.chunk_creator(SchedCreator { ctl: ctl.clone(), creates: Cell::new(0), fail_create }).build();
    for (i, (k, v)) in ins.iter().enumerate() {
        ctl.public_call.set(i as u64);
        match catch(|| sorter.insert(k, v)) {
            Ok(Ok(())) => {}
            Ok(Err(e)) => return (format!("err {}", err_class(&e)), Some(i)),
            Err(_) => return ("panic".to_string(), Some(i)),
        }
    }
    ctl.public_call.set(ins.len() as u64);
    let r = catch(move || -> Result<Vec<(Vec<u8>, Vec<u8>)>, String> {
        let mut it = sorter.into_stream_merger_iter().map_err(|e| err_class(&e))?;
        let mut out = Vec::new();
        while let Some((k, v)) = it.next().map_err(|e| err_class(&e))? {
            out.push((k.to_vec(), v.to_vec()));
        }
        Ok(out)
    });
    match r {
        Ok(Ok(o)) => { let (n, h) = entries_hash(o.iter().map(|(k, v)| (&k[..], &v[..]))); (format!("{} {:016x}", n, h), None) }
        Ok(Err(e)) => (format!("err {}", e), Some(ins.len())),
        Err(_) => ("panic".to_string(), Some(ins.len())),
    }
}

// ------------------------------------------------------------------ C12
pub fn generate_c12<W: Write>(c: &mut Cases<W>, rng: &mut Rng, thorough: bool) {
    let n = if thorough { 400 } else { 36 };
    for i in 0..n {
        // ---- writer: every byte position of the file, and the flush
        let cfg = gen_cfg(rng, i % 2 == 0, i % 3 == 0);
        let cfg = FileCfg { levels: cfg.levels.min(4), ..cfg };
        let es = bounded_entries(rng, &cfg, 40, 600);
        if let WriteOutcome::File(plain) = write_file(&cfg, &es) {
            c.begin("wfault");
            c.line("prop C12");
            c.line(&cfg.line());
            for (k, v) in &es {
                c.line(&format!("e {} {}", hex(k), hex(v)));
            }
            ztable(c, cfg.codec, &plain);
            c.line(&format!("plainlen {}", plain.len()));
            let mut positions: Vec<Option<u64>> = (0..plain.len() as u64).filter(|p| plain.len() < 700 || p % 7 == 0 || *p + 30 > plain.len() as u64).map(Some).collect();
            positions.push(None); // flush fault
            // every position twice: a device that stays broken, and one that fails that once and works again
            let positions: Vec<(Option<u64>, bool)> = positions.iter().map(|p| (*p, false)).chain(positions.iter().map(|p| (*p, true))).collect();
            for (p, oneshot) in positions {
                let ctl = Ctl::new();
                ctl.oneshot.set(oneshot);
                ctl.fault.set(Some(match p { Some(p) => (0, p), None => (1, 0) }));
                let mut failed: Option<(usize, String)> = None;
                let r = catch(|| {
                    let mut w = cfg.builder().build(Sched::new(Vec::new(), ctl.clone()));
                    for (j, (k, v)) in es.iter().enumerate() {
                        ctl.public_call.set(j as u64);
                        if let Err(e) = w.insert(k, v) {
                            return Some((j, io_class(&e)));
                        }
                    }
                    ctl.public_call.set(es.len() as u64);
                    match w.into_inner() { Ok(_) => None, Err(e) => Some((es.len(), io_class(&e))) }
                });
                let res = match r {
                    Ok(None) => "ok -".to_string(),
                    Ok(Some((j, cls))) => { failed = Some((j, cls.clone())); format!("{} {}", j, cls) }
                    Err(_) => "panic -".to_string(),
                };
                let _ = failed;
                let fired = ctl.fired_at.get().map(|x| x.to_string()).unwrap_or("-".into());
                c.line(&format!("f {} = {} fired {}", p.map(|x| x.to_string()).unwrap_or("flush".into()), res, fired));
                c.bump("faults.writer", 1);
            }
            c.nontrivial(&fnv(&plain).to_le_bytes());
            c.end();
        }
        // ---- reader: every seek and every read of a history
        {
            let mut cfg = gen_cfg(rng, true, i % 3 == 0);
            cfg.levels = cfg.levels.min(3);
            let es = bounded_entries(rng, &cfg, 80, 1500);
            if let WriteOutcome::File(file) = write_file(&cfg, &es) {
                let mut ops = gen_history(rng, &es, 16, 1);
                ops.retain(|(cid, op)| *cid == 0 && !matches!(op, Op::Clone(_)));
                // fault-free run to learn the number of calls
                let ctl0 = Ctl::new();
                let free = run_history_ctl(&file, &ops, ctl0.clone());
                let (nreads, nseeks) = (ctl0.reads.get(), ctl0.seeks.get());
                let read_load = ctl0.read_load.borrow().clone();
                // no component fails, no error: the same history over a source that never fails but serves one
                // byte per read call, or interrupts every other call, returns the same results
                for mode in [0u8, 1] {
                    let ctl_q = Ctl::new();
                    *ctl_q.rng.borrow_mut() = Some(Rng::new(i as u64 + 1));
                    ctl_q.mode.set(mode);
                    let quiet = run_history_ctl(&file, &ops, ctl_q.clone());
                    c.bump("quiet_runs_over_short_reads", 1);
                    if quiet != free {
                        println!("DIRECT fail a source that never fails (it serves {}) makes the history end with '{}' (whole reads: '{}'){}",
                                 if mode == 0 { "one byte per read call" } else { "every other call interrupted" }, quiet.1, free.1,
                                 if quiet.0 != free.0 { ", with other results" } else { "" });
                    }
                }
                c.begin("rfault");
                c.line("prop C12");
                c.line(&cfg.line());
                c.line(&format!("file {}", hex(&file)));
                crate::c_hist::ztable_body(c, cfg.codec, &file);
                for (cid, op) in &ops {
                    c.line(&format!("op {} {}", cid, crate::c_hist::op_token(op)));
                }
                c.line(&format!("free {}", free.0));
                // open does 2 End-seeks and 4 or 5 reads before the cursor exists
                for (kind, total) in [(3u8, nseeks), (2u8, nreads)] {
                    for k in 0..total {
                        let ctl = Ctl::new();
                        ctl.fault.set(Some((kind, k)));
                        let (_digest, failed) = run_history_ctl(&file, &ops, ctl.clone());
                        let fired = ctl.fired_at.get().map(|x| x.to_string()).unwrap_or("-".into());
                        // which block load the call belongs to (number of Start-seeks before it)
                        let load = if kind == 3 { if k < 2 { -1i64 } else { k as i64 - 2 } } else { read_load[k as usize] as i64 - 1 };
                        c.line(&format!("f {} {} load {} = {} fired {}", if kind == 3 { "seek" } else { "read" }, k, load, failed, fired));
                        c.bump("faults.reader", 1);
                    }
                }
                c.nontrivial(&fnv(&file).to_le_bytes());
                c.end();
            }
        }
        // ---- reader: a full scan of a deep file (index_levels 3), every seek and read
        if i % 3 == 0 {
            let cfg = FileCfg { codec: CompressionType::None, level: 0, block_size: 40 + (i % 30), unclamped: true, interval: Some(1 + i % 3), levels: 3 };
            let es: Vec<(Vec<u8>, Vec<u8>)> = (0..90u32).map(|x| (format!("key{:05}", x * 3).into_bytes(), vec![x as u8; (x % 5) as usize])).collect();
            if let WriteOutcome::File(file) = write_file(&cfg, &es) {
                let backward = i % 6 == 0;
                let mut ops: Vec<(usize, Op)> = vec![(0, if backward { Op::Last } else { Op::First })];
                for _ in 0..es.len() {
                    ops.push((0, if backward { Op::Prev } else { Op::Next }));
                }
                let ctl0 = Ctl::new();
                let free = run_history_ctl(&file, &ops, ctl0.clone());
                let (nreads, nseeks) = (ctl0.reads.get(), ctl0.seeks.get());
                let read_load = ctl0.read_load.borrow().clone();
                c.begin("rfault");
                c.line("prop C12");
                c.line(&cfg.line());
                c.line(&format!("file {}", hex(&file)));
                for (cid, op) in &ops {
                    c.line(&format!("op {} {}", cid, crate::c_hist::op_token(op)));
                }
                c.line(&format!("free {}", free.0));
                for (kind, total) in [(3u8, nseeks), (2u8, nreads)] {
                    for k in 0..total {
                        let ctl = Ctl::new();
                        ctl.fault.set(Some((kind, k)));
                        let (_digest, failed) = run_history_ctl(&file, &ops, ctl.clone());
                        let fired = ctl.fired_at.get().map(|x| x.to_string()).unwrap_or("-".into());
                        let load = if kind == 3 { if k < 2 { -1i64 } else { k as i64 - 2 } } else { read_load[k as usize] as i64 - 1 };
                        c.line(&format!("f {} {} load {} = {} fired {}", if kind == 3 { "seek" } else { "read" }, k, load, failed, fired));
                        c.bump("faults.reader_scan", 1);
                    }
                }
                c.nontrivial(&fnv(&file).to_le_bytes());
                c.end();
            }
        }
        // ---- iterators: every read and every seek of a range / prefix iteration fails once; the call of next
        // during which it happens returns the error, what was yielded before is what the fault-free iteration
        // yields, and the iteration never ends quietly (Ok(None)) short of it
        if i % 3 == 1 || thorough {
            let cfg = FileCfg { codec: if i % 4 == 0 { CompressionType::Snappy } else { CompressionType::None }, level: 0,
                                block_size: 48 + (i % 40), unclamped: true, interval: Some(1 + i % 3), levels: ((i / 3) % 3) as u8 };
            let es: Vec<(Vec<u8>, Vec<u8>)> = (0..40u32).map(|x| (vec![b'a' + (x / 10) as u8, (x % 10) as u8 * 20], vec![x as u8; (x % 7) as usize])).collect();
            if let WriteOutcome::File(file) = write_file(&cfg, &es) {
                for q in 0..4u8 {
                    // 0 forward range, 1 reverse range, 2 forward prefix, 3 reverse prefix
                    let run = |ctl: Rc<Ctl>| -> (Vec<(Vec<u8>, Vec<u8>)>, String) {
                        let mut out = Vec::new();
                        let r = catch(|| -> Result<(), String> {
                            let rd = Reader::new(Sched::new(file.clone(), ctl.clone())).map_err(|e| err_class(&e))?;
                            macro_rules! drain { ($it:expr) => {{ let mut it = $it.map_err(|e| err_class(&e))?;
                                loop { match it.next() { Ok(Some((k, v))) => out.push((k.to_vec(), v.to_vec())), Ok(None) => break, Err(e) => return Err(err_class(&e)) }
                                       if out.len() > 100 { return Err("runaway".into()); } } }} }
                            match q {
                                0 => drain!(rd.into_range_iter((std::ops::Bound::Included(vec![b'a', 100u8]), std::ops::Bound::Excluded(vec![b'd', 0u8])))),
                                1 => drain!(rd.into_rev_range_iter((std::ops::Bound::Excluded(vec![b'a', 100u8]), std::ops::Bound::Included(vec![b'c', 180u8])))),
                                2 => drain!(rd.into_prefix_iter(vec![b'b'])),
                                _ => drain!(rd.into_rev_prefix_iter(vec![b'c'])),
                            }
                            Ok(())
                        });
                        let end = match r { Ok(Ok(())) => "ok".to_string(), Ok(Err(e)) => format!("err {}", e), Err(_) => "panic".to_string() };
                        (out, end)
                    };
                    let ctl0 = Ctl::new();
                    let (free, end0) = run(ctl0.clone());
                    if end0 != "ok" || free.is_empty() {
                        println!("DIRECT fail iterator {} without any fault ended with {} after {} entries", q, end0, free.len());
                        continue;
                    }
                    for (kind, total) in [(3u8, ctl0.seeks.get()), (2u8, ctl0.reads.get())] {
                        for k in 0..total {
                            let ctl = Ctl::new();
                            ctl.oneshot.set(k % 2 == 0);
                            ctl.fault.set(Some((kind, k)));
                            let (got, end) = run(ctl.clone());
                            c.bump("faults.iterator", 1);
                            let prefix_ok = got.len() <= free.len() && got[..] == free[..got.len()];
                            if ctl.fired_at.get().is_some() && (end != "err io7" || !prefix_ok) {
                                println!("DIRECT fail iterator {} (0 range, 1 reverse range, 2 prefix, 3 reverse prefix) with {} number {} of its source failing: ended with '{}' after {} entries (fault-free: {} entries){}",
                                         q, if kind == 3 { "seek" } else { "read" }, k, end, got.len(), free.len(), if prefix_ok { "" } else { ", entries differ from the fault-free ones" });
                            }
                            if ctl.fired_at.get().is_none() && (end != "ok" || got != free) {
                                println!("DIRECT fail iterator {}: no fault fired but the iteration differs from the fault-free one", q);
                            }
                        }
                    }
                }
            }
        }
        // ---- no component fails, no error: a stored block above 64 MiB (one entry of 65 MiB, codec None) between
        // small entries, scanned forward and backward and sought
        if i == 0 {
            let big = vec![0x5Au8; (65 << 20) + 3];
            let es = vec![(vec![1u8], vec![1u8; 9]), (vec![2u8], big), (vec![3u8], vec![3u8; 9])];
            let cfg = FileCfg { codec: CompressionType::None, level: 0, block_size: 4096, unclamped: false, interval: None, levels: 1 };
            match write_file(&cfg, &es) {
                WriteOutcome::File(file) => {
                    let r = catch(|| -> Result<(usize, usize, bool), String> {
                        let mut cur = Reader::new(Cursor::new(&file[..])).map_err(|e| err_class(&e))?.into_cursor().map_err(|e| err_class(&e))?;
                        let mut n = 0;
                        while let Some(_) = cur.move_on_next().map_err(|e| err_class(&e))? { n += 1; if n > 5 { break; } }
                        let mut m = 0;
                        cur.reset();
                        while let Some(_) = cur.move_on_prev().map_err(|e| err_class(&e))? { m += 1; if m > 5 { break; } }
                        let hit = cur.move_on_key_equal_to([2u8]).map_err(|e| err_class(&e))?.map(|(_, v)| v.len() == (65 << 20) + 3).unwrap_or(false);
                        Ok((n, m, hit))
                    });
                    c.bump("no_fault.large_block", 1);
                    match r {
                        Ok(Ok((3, 3, true))) => {}
                        Ok(Ok(x)) => println!("DIRECT fail file with a 65 MiB entry: scans / seek give {:?} instead of (3, 3, true)", x),
                        Ok(Err(e)) => println!("DIRECT fail file with a 65 MiB entry: no component failed, yet the reader returned {}", e),
                        Err(_) => println!("DIRECT fail file with a 65 MiB entry: the reader panicked"),
                    }
                }
                _ => println!("DIRECT fail a file with a 65 MiB entry could not be written"),
            }
        }
        // ---- sorter: every create, every merge call; chunk storage faults (spec only)
        {
            let scfg = gen_cfg_sorter(rng);
            // (every I/O call of the chunk storage is a fault position: keep the chunk files shallow)
            let scfg = SortCfg { parallel: false, levels: scfg.levels.min(3), ..scfg };
            let pool: Vec<Vec<u8>> = (0..rng.range(2, 12)).map(|_| gen_key(rng, 5)).collect();
            let ins: Vec<(Vec<u8>, Vec<u8>)> = (0..rng.range(5, 80)).map(|_| (pool[rng.below(pool.len() as u64) as usize].clone(), gen_val(rng, scfg.threshold / 4).iter().map(|_| 7u8).collect())).collect();
            let ctl0 = Ctl::new();
            let (free, _) = run_sorter(&scfg, &ins, ctl0.clone(), None, None);
            c.begin("sfault");
            c.line("prop C12");
            c.line(&format!("scfg {} {} {} {} {} 0", scfg.threshold, scfg.realloc as u8, scfg.max_chunks, scfg.init_cap, scfg.stable as u8));
            for (k, v) in &ins {
                c.line(&format!("ins {} {}", hex(k), hex(v)));
            }
            c.line(&format!("free {}", free));
            // creates: how many happen in a fault-free run? probe increasing ordinals until no fault fires
            let mut j = 0u64;
            loop {
                let variant = (j % 3) as u8;
                let ctl = Ctl::new();
                let (res, at) = run_sorter(&scfg, &ins, ctl.clone(), Some((j, variant)), None);
                if ctl.fired_at.get().is_none() {
                    break;
                }
                c.line(&format!("f create {} {} = {} {} fired {}", j, variant, at.map(|x| x.to_string()).unwrap_or("-".into()), res.replace(' ', "_"), ctl.fired_at.get().unwrap()));
                c.bump("faults.create", 1);
                j += 1;
                if j > 400 { break; }
            }
            let mut j = 0usize;
            loop {
                let ctl = Ctl::new();
                let mfprobe = run_sorter(&scfg, &ins, ctl.clone(), None, Some(j));
                if !mfprobe.0.starts_with("err") && mfprobe.0 != "panic" {
                    break;
                }
                c.line(&format!("f merge {} 0 = {} {} fired -", j, mfprobe.1.map(|x| x.to_string()).unwrap_or("-".into()), mfprobe.0.replace(' ', "_")));
                c.bump("faults.merge", 1);
                j += 1;
                if j > 600 { break; }
            }
            // chunk storage: k-th write / read / seek / flush of the shared controller (spec only)
            let (w, r, s, fl) = (ctl0.writes.get(), ctl0.reads.get(), ctl0.seeks.get(), ctl0.flushes.get());
            for (kind, total, stride) in [(0u8, ctl0.bytes_written.get(), 5u64), (1, fl, 1), (2, r, 3), (3, s, 2)] {
                let mut k = 0;
                while k < total {
                    let ctl = Ctl::new();
                    ctl.fault.set(Some((kind, k)));
                    let (res, at) = run_sorter(&scfg, &ins, ctl.clone(), None, None);
                    let fired = ctl.fired_at.get().map(|x| x.to_string()).unwrap_or("-".into());
                    c.line(&format!("f io {} {} = {} {} fired {}", kind, k, at.map(|x| x.to_string()).unwrap_or("-".into()), res.replace(' ', "_"), fired));
                    c.bump("faults.chunk_io", 1);
                    k += stride;
                }
            }
            let _ = w;
            c.nontrivial(&fnv(format!("{:?}{:?}", scfg, ins).as_bytes()).to_le_bytes());
            c.end();
        }
        // ---- merger: source faults (spec only)
        if i % 2 == 0 {
            let srcs = crate::c_merge::gen_sources(rng);
            let files: Vec<Vec<u8>> = srcs.iter().map(|s| match write_file(&FileCfg { levels: 1, ..cfg.clone() }, s) { WriteOutcome::File(f) => f, _ => panic!() }).collect();
            let run = |ctl: Rc<Ctl>| -> (String, Option<u64>) {
                let mf = LoggingConcat { calls: RefCell::new(Vec::new()), fail_at: None, sort: false };
                let mut call = 0u64;
                let r = catch(|| -> Result<u64, (String, u64)> {
                    let mut b = Merger::builder(&mf);
                    ctl.public_call.set(0);
                    for f in &files {
                        b.push(Reader::new(Sched::new(f.clone(), ctl.clone())).map_err(|e| (err_class(&e), 0))?.into_cursor().map_err(|e| (err_class(&e), 0))?);
                    }
                    call = 1;
                    ctl.public_call.set(call);
                    let mut it = b.build().into_stream_merger_iter().map_err(|e| (err_class(&e), 1))?;
                    let mut n = 0u64;
                    loop {
                        call += 1;
                        ctl.public_call.set(call);
                        match it.next() {
                            Ok(Some(_)) => n += 1,
                            Ok(None) => return Ok(n),
                            Err(e) => return Err((err_class(&e), call)),
                        }
                    }
                });
                match r {
                    Ok(Ok(n)) => (format!("ok_{}", n), None),
                    Ok(Err((e, at))) => (format!("err_{}", e), Some(at)),
                    Err(_) => ("panic".to_string(), Some(call)),
                }
            };
            let ctl0 = Ctl::new();
            let (free, _) = run(ctl0.clone());
            c.begin("mfault");
            c.line("prop C12");
            c.line(&format!("free {}", free));
            for (kind, total) in [(2u8, ctl0.reads.get()), (3u8, ctl0.seeks.get())] {
                for k in 0..total {
                    let ctl = Ctl::new();
                    ctl.fault.set(Some((kind, k)));
                    let (res, at) = run(ctl.clone());
                    let fired = ctl.fired_at.get().map(|x| x.to_string()).unwrap_or("-".into());
                    c.line(&format!("f io {} {} = {} {} fired {}", kind, k, at.map(|x| x.to_string()).unwrap_or("-".into()), res, fired));
                    c.bump("faults.merger_io", 1);
                }
            }
            c.nontrivial(&fnv(format!("{:?}", files).as_bytes()).to_le_bytes());
            c.end();
        }
    }
}

/// a history under a controller: returns (digest of the results, "opidx class" of the first failure or "ok -")
pub fn run_history_ctl(file: &[u8], ops: &[(usize, Op)], ctl: Rc<Ctl>) -> (String, String) {
    ctl.public_call.set(u64::MAX); // open
    let reader = match catch(|| Reader::new(Sched::new(file.to_vec(), ctl.clone()))) {
        Ok(Ok(r)) => r,
        Ok(Err(e)) => return ("-".into(), format!("open {}", err_class(&e))),
        Err(_) => return ("-".into(), "open panic".into()),
    };
    let mut cursors = vec![Some(reader.into_cursor().unwrap())];
    let mut lines = Vec::new();
    for (i, (cid, op)) in ops.iter().enumerate() {
        ctl.public_call.set(i as u64);
        if let Op::Clone(newid) = op {
            let cl = cursors[*cid].as_ref().unwrap().clone();
            while cursors.len() <= *newid { cursors.push(None); }
            cursors[*newid] = Some(cl);
            continue;
        }
        let cur = cursors[*cid].as_mut().unwrap();
        let r = catch(|| crate::c_hist::apply_op(cur, op));
        match r {
            Ok(Ok(x)) => lines.push(format!("{:?}", x)),
            Ok(Err(e)) => {
                // the failed call has returned its error; the source works again: whatever the cursor now
                // answers, using it further must not panic
                ctl.fault.set(None);
                for later in [Op::Current, Op::Next, Op::Prev, Op::Current, Op::First, Op::Next, Op::Last, Op::Prev] {
                    let cur = cursors[*cid].as_mut().unwrap();
                    if catch(|| crate::c_hist::apply_op(cur, &later).map(|_| ())).is_err() {
                        println!("DIRECT fail after-fault: operation {} ({}) returned {}; with the source working again a later {} on the same cursor panicked",
                                 i, crate::c_hist::op_token(op), e, crate::c_hist::op_token(&later));
                        break;
                    }
                }
                return (digest(&lines), format!("{} {}", i, e));
            }
            Err(_) => return (digest(&lines), format!("{} panic", i)),
        }
    }
    (digest(&lines), "ok -".to_string())
}
